"""Shared plumbing: case hashing, result collection, Hypothesis driving, shrinking, known findings."""
import hashlib
import importlib
import json
import os
import random
import time
import traceback

HOME = os.environ.get("VERIF_HOME", os.path.abspath(os.path.join(os.path.dirname(__file__), "..", "..")))


def jsonable(x):
    """Convert numpy / jax scalars and arrays, tuples, sets to plain JSON types."""
    try:
        import numpy as onp
    except Exception:  # pragma: no cover
        onp = None
    if isinstance(x, dict):
        return {str(k): jsonable(v) for k, v in x.items()}
    if isinstance(x, (list, tuple)):
        return [jsonable(v) for v in x]
    if isinstance(x, (set, frozenset)):
        return sorted(jsonable(v) for v in x)
    if isinstance(x, (str, bool)) or x is None:
        return x
    if isinstance(x, int):
        return x
    if isinstance(x, float):
        if x != x:
            return "nan"
        if x in (float("inf"), float("-inf")):
            return "inf" if x > 0 else "-inf"
        return x
    if onp is not None:
        if isinstance(x, onp.generic):
            return jsonable(x.item())
        if hasattr(x, "__array__"):
            return jsonable(onp.asarray(x).tolist())
    return repr(x)


def case_hash(case) -> str:
    return hashlib.sha1(json.dumps(jsonable(case), sort_keys=True).encode()).hexdigest()[:16]


class Failure(Exception):
    """Raised by oracles; carries a clause bucket and details."""

    def __init__(self, clause, detail=None):
        super().__init__(f"{clause}: {detail}")
        self.clause = clause
        self.detail = detail


class CaseResult:
    """What one executed case reports back."""

    def __init__(self):
        self.failures = []  # list of (clause, detail)
        self.classes = []  # labels for the class histogram
        self.nontrivial = False
        self.counters = {}  # numeric counters summed over cases
        self.rejected = None  # clean, documented rejection (string) -> not an oracle pass

    def fail(self, clause, detail=None):
        self.failures.append((str(clause), jsonable(detail)))

    def label(self, *labels):
        for l in labels:
            if l not in self.classes:
                self.classes.append(l)

    def count(self, key, n=1):
        self.counters[key] = self.counters.get(key, 0) + n


def load_prop(pid):
    return importlib.import_module(f"rexverif.props.{pid.lower()}")


def load_known_findings():
    path = os.path.join(HOME, "known_findings.json")
    if not os.path.exists(path):
        return []
    with open(path) as f:
        return json.load(f).get("findings", [])


def match_known(pid, clause, detail, case):
    """A failure is a known finding only if an entry with status 'known' names this property and its
    'match' predicate (clause + all listed detail/case key-values) holds. 'fixed' entries suppress nothing."""
    for kf in load_known_findings():
        if kf.get("status") != "known" or kf.get("property") != pid:
            continue
        m = kf.get("match", {})
        if m.get("clause") is not None and m["clause"] != clause:
            continue
        ok = True
        for k, v in m.get("detail", {}).items():
            if not (isinstance(detail, dict) and detail.get(k) == v):
                ok = False
        for k, v in m.get("case", {}).items():
            if not (isinstance(case, dict) and jsonable(case.get(k)) == v):
                ok = False
        if ok:
            return kf
    return None


class Collector:
    """Collect-then-continue: oracle failures are recorded per clause bucket and exploration goes on."""

    def __init__(self, pid, max_samples=4):
        self.pid = pid
        self.evaluations = 0
        self.nontrivial = set()
        self.seen = set()
        self.classes = {}
        self.counters = {}
        self.samples = []
        self.failures = {}  # clause -> dict(case, detail, count)
        self.rejected = {}
        self.max_samples = max_samples
        self.errors = []

    def add(self, case, res: CaseResult):
        h = case_hash(case)
        self.evaluations += 1
        self.seen.add(h)
        if res.rejected is not None:
            self.rejected[res.rejected] = self.rejected.get(res.rejected, 0) + 1
        if res.nontrivial and res.rejected is None:
            self.nontrivial.add(h)
        for c in res.classes:
            self.classes[c] = self.classes.get(c, 0) + 1
        for k, v in res.counters.items():
            self.counters[k] = self.counters.get(k, 0) + v
        if len(self.samples) < self.max_samples and (res.nontrivial or self.evaluations > 20):
            self.samples.append(jsonable(case))
        for clause, detail in res.failures:
            cur = self.failures.get(clause)
            size = len(json.dumps(jsonable(case)))
            if cur is None:
                self.failures[clause] = dict(case=jsonable(case), detail=detail, count=1, size=size)
            else:
                cur["count"] += 1
                if size < cur["size"]:
                    cur.update(case=jsonable(case), detail=detail, size=size)

    def to_json(self):
        return dict(
            evaluations=self.evaluations,
            distinct=len(self.seen),
            nontrivial=sorted(self.nontrivial),
            classes=self.classes,
            counters=self.counters,
            samples=self.samples,
            failures=self.failures,
            rejected=self.rejected,
            errors=self.errors,
        )


def run_hypothesis(prop, tier, seed, n_examples, collector: Collector, time_budget_s=None, skip_first=False):
    """Drive prop.strategy(tier) with Hypothesis; prop.check(case) -> CaseResult never raises for oracle failures."""
    import hypothesis
    from hypothesis import HealthCheck, Phase, given, settings

    t0 = time.time()
    state = {"stop": False, "calls": 0}

    def body(case):
        state["calls"] += 1
        if skip_first and state["calls"] == 1:
            return  # Hypothesis always starts with the minimal example; one shard (0) running it is enough
        if state["stop"]:
            return
        if time_budget_s is not None and time.time() - t0 > time_budget_s:
            state["stop"] = True  # budget hit: inconclusive for the remaining cases, never a violation
            return
        res = prop.check(case)
        collector.add(case, res)

    test = given(prop.strategy(tier))(body)
    test = hypothesis.seed(seed)(test)
    test = settings(
        max_examples=n_examples + (1 if skip_first else 0),
        database=None,
        deadline=None,
        derandomize=False,
        report_multiple_bugs=False,
        phases=[Phase.generate],
        suppress_health_check=[HealthCheck.too_slow, HealthCheck.data_too_large, HealthCheck.large_base_example],
    )(test)
    test()
    return state["stop"]


def shrink_failure(prop, tier, seed, clause, recorded_case, budget_s=120.0):
    """Shrink with Hypothesis: re-find the same clause bucket from the same seed and let the shrinker
    minimise it. Falls back to the recorded case when it cannot be re-found inside the budget."""
    from hypothesis import HealthCheck, find, settings
    from hypothesis.errors import NoSuchExample

    t0 = time.time()
    cache = {}

    def cond(case):
        if time.time() - t0 > budget_s:
            return False
        h = case_hash(case)
        if h not in cache:
            try:
                res = prop.check(case)
                cache[h] = any(c == clause for c, _ in res.failures)
            except Exception:
                cache[h] = False
        return cache[h]

    try:
        best = find(
            prop.strategy(tier),
            cond,
            settings=settings(
                max_examples=2000,
                database=None,
                deadline=None,
                suppress_health_check=list(HealthCheck),
            ),
            random=random.Random(seed),
        )
        return jsonable(best), True
    except NoSuchExample:
        return recorded_case, False
    except Exception:
        return recorded_case, False


def write_replay(pid, clause, case, detail, seed, tier, shrunk):
    d = os.path.join(HOME, "replays")
    os.makedirs(d, exist_ok=True)
    h = case_hash({"c": case, "clause": clause})
    path = os.path.join(d, f"{pid}-{h}.json")
    with open(path, "w") as f:
        json.dump(
            dict(property=pid, clause=clause, case=jsonable(case), detail=jsonable(detail), seed=seed, tier=tier, shrunk=shrunk),
            f,
            indent=1,
            sort_keys=True,
        )
    return os.path.relpath(path, HOME)


def fmt_exc():
    return traceback.format_exc()
