"""Instrumented user nodes: integer digests of everything a step may see + a host-side trace (independent of rex records)."""
import threading

import jax
import jax.numpy as jnp
import numpy as onp
from flax import struct

from rex import base
from rex.node import BaseNode


@struct.dataclass
class PState(base.Base):
    cnt: jax.Array
    dig: jax.Array


@struct.dataclass
class PParams(base.Base):
    nid: jax.Array
    c: jax.Array


@struct.dataclass
class POut(base.Base):
    a: jax.Array  # int32[4] = (producer id, seq, digest after the step, episode)


def _bits(x):
    # -0.0 is mapped to +0.0: the default entries of the threaded runtime are built as 0 * arange(-w, 0) = -0.0, the
    # compiled ones as +0.0 - the same time stamp
    x = jnp.asarray(x, dtype=jnp.float32)
    x = jnp.where(x == 0, jnp.float32(0.0), x)  # (x + 0.0 is folded away by XLA under jit)
    return jax.lax.bitcast_convert_type(x, jnp.int32)


def _mix(d, x):
    x = jnp.asarray(x).astype(jnp.int32).reshape(-1)
    for i in range(x.shape[0]):  # static, tiny
        d = (d * jnp.int32(1000003)) ^ (x[i] + jnp.int32(0x9E3779B))
    return d


class Trace:
    """Host-side list of executed steps, filled from inside the steps."""

    def __init__(self):
        self.lock = threading.Lock()
        self.rows = []  # dicts
        self.enabled = True

    def add(self, name, row):
        if not self.enabled:
            return
        with self.lock:
            self.rows.append((name, row))

    def clear(self):
        with self.lock:
            self.rows = []

    def by_key(self):
        """(node, eps, seq) -> list of rows (length > 1 means executed more than once)."""
        jax.effects_barrier()
        out = {}
        with self.lock:
            for name, r in self.rows:
                out.setdefault((name, int(r["eps"]), int(r["seq"])), []).append(r)
        return out


class ProbeNode(BaseNode):
    digest_ts_recv = True  # C10 compares runs whose receive times may differ by one float32 ulp

    def __init__(self, *args, nid: int, trace: Trace = None, const: int = 0, **kwargs):
        super().__init__(*args, **kwargs)
        self.nid = nid
        self.trace = trace
        self.const = const

    startup_sleep = 0.0  # seconds the user-defined startup() takes (C05 wall-clock scenarios)

    def startup(self, graph_state, timeout=None):
        if self.startup_sleep:
            import time

            time.sleep(self.startup_sleep)
        return True

    def init_params(self, rng=None, graph_state=None):
        return PParams(nid=jnp.int32(self.nid), c=jnp.int32(self.const))

    def init_state(self, rng=None, graph_state=None):
        return PState(cnt=jnp.int32(0), dig=jnp.int32(17 + self.nid))

    def init_output(self, rng=None, graph_state=None):
        return POut(a=jnp.array([self.nid, -1, 0, -1], dtype=jnp.int32))

    def step(self, step_state: base.StepState):
        ss = step_state
        d = ss.state.dig
        d = _mix(d, ss.params.nid)
        d = _mix(d, ss.params.c)
        d = _mix(d, ss.eps)
        d = _mix(d, ss.seq)
        d = _mix(d, _bits(ss.ts))
        d = _mix(d, jax.lax.bitcast_convert_type(jnp.asarray(ss.rng, dtype=jnp.uint32), jnp.int32))
        d = _mix(d, ss.state.cnt)
        ins = {}
        for name in sorted(ss.inputs.keys()):
            i = ss.inputs[name]
            seqn = jnp.maximum(jnp.asarray(i.seq, dtype=jnp.int32), -1)  # any negative value means "default output"
            d = _mix(d, seqn)
            d = _mix(d, _bits(i.ts_sent))
            if self.digest_ts_recv:
                d = _mix(d, _bits(i.ts_recv))
            d = _mix(d, i.data.a)
            ins[name] = dict(seq=seqn, ts_sent=jnp.asarray(i.ts_sent, jnp.float32), ts_recv=jnp.asarray(i.ts_recv, jnp.float32), a=i.data.a)
        new_rng, _sub = jax.random.split(ss.rng)
        out = POut(a=jnp.stack([jnp.asarray(ss.params.nid, jnp.int32), jnp.asarray(ss.seq, jnp.int32), d, jnp.asarray(ss.eps, jnp.int32)]))
        new_state = PState(cnt=ss.state.cnt + 1, dig=d)
        if self.trace is not None:
            row = dict(eps=jnp.asarray(ss.eps, jnp.int32), seq=jnp.asarray(ss.seq, jnp.int32), ts=jnp.asarray(ss.ts, jnp.float32), rng=ss.rng,
                       cnt=ss.state.cnt, dig=ss.state.dig, c=ss.params.c, ins=ins, out=out.a, new_dig=d, new_rng=new_rng)
            name = self.name
            trace = self.trace
            jax.debug.callback(lambda r: trace.add(name, jax.tree_util.tree_map(onp.asarray, r)), row)
        return ss.replace(rng=new_rng, state=new_state), out
