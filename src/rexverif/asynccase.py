"""Shared driver for checks that run generated systems on the threaded runtime and inspect each episode record."""
import numpy as onp
from hypothesis import strategies as st

from rexverif import sysgen
from rexverif.asyncrun import AsyncRun, Hang


@st.composite
def async_case(draw, wall_fraction=0, **kw):
    spec = draw(sysgen.system_spec(**kw))
    wall = wall_fraction > 0 and draw(st.sampled_from([False] * (100 - wall_fraction) + [True] * wall_fraction))
    if wall:
        # wall clock: real time passes; keep episodes short
        spec["episodes"] = [min(e, 6) for e in spec["episodes"][:1]]
    return dict(
        spec=spec,
        clock="WALL_CLOCK" if wall else "SIMULATED",
        mode=draw(st.sampled_from(["run", "run", "step", "step_override"])),
    )


CONTAMINATED = [False]  # a hung/livelocked graph leaves threads behind that may burn CPU: stop using this worker


def drive(case, res, on_episode, trace_enabled=True, record_settings=None, max_records=None):
    """Builds the graph, runs all episodes; on_episode(e, n_steps, outs, rec, run) is called per episode.
    A lifecycle call that does not return is C05's business: the case is counted as 'hang' and not asserted here."""
    import jax.numpy as jnp

    spec = case["spec"]
    run = None
    if CONTAMINATED[0]:
        res.rejected = "skipped: an earlier case of this worker hung"
        return None
    try:
        run = AsyncRun(spec, clock=case["clock"], rtf=case.get("rtf", 0), record_settings=record_settings, max_records=max_records)
        if not trace_enabled:
            run.trace.enabled = False
        budget = 30.0 if case["clock"] == "SIMULATED" else 60.0
        for e, n in enumerate(spec["episodes"]):
            gs = run.start_state(e)
            if case["mode"] == "run":
                outs, rec = run.episode_run(gs, n, budget_s=budget)
            else:
                ov = None
                if case["mode"] == "step_override":
                    sup = run.sup

                    def ov(i, ss, sup=sup):
                        if i % 2 == 1:
                            new_ss, out = sup.step(ss)  # computed by the user, handed to step()
                            return new_ss, out
                        return None

                outs, rec = run.episode_step(gs, n, override=ov, budget_s=budget)
            on_episode(e, n, outs, rec, run)
    except Hang as h:
        res.rejected = "hang"
        CONTAMINATED[0] = True
        res.label("hang:" + h.call.split("#")[0])
        try:  # keep the case for C05's calibration of the supported class
            import json, os
            from rexverif import common
            with open(os.path.join(common.HOME, ".work", "hangs.jsonl"), "a") as f:
                f.write(json.dumps(dict(case=common.jsonable(case), call=h.call, info=h.info)) + "\n")
        except Exception:
            pass
    except TypeError as ex:
        # AsyncGraph.get_record() cannot stack an empty list of rows (a connection that delivered nothing by the end of a
        # very short episode): no record to judge. Observation outside the listed properties; counted, not asserted.
        if "tree_map() missing 1 required positional argument" in str(ex):
            res.rejected = "get_record raises on a connection/node without any recorded row"
        else:
            raise
    except (ValueError, NotImplementedError) as ex:
        msg = str(ex)
        if "advance=True" in msg:
            res.rejected = "advance without blocking inputs (documented rejection)"
        else:
            raise
    finally:
        if run is not None:
            run.close()
    return run
