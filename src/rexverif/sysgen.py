"""Hypothesis strategies for node systems (SystemSpec = plain JSON) and builders turning a spec into connected rex nodes."""
from fractions import Fraction

from hypothesis import strategies as st

RATES = [4, 5, 8, 10, 12, 16, 20, 25, 40, 50]

# ------------------------------------------------------------------ delay distributions


def _ms(lo, hi):
    return st.integers(lo, hi).map(lambda i: i / 1000.0)


@st.composite
def dist_spec(draw, period, cls, allow_stochastic=True):
    """cls: zero | light | heavy | tie. period in seconds (of the owner: node period / sender period)."""
    if cls == "zero":
        return {"k": "det", "c": 0.0}
    if cls == "tie":
        # integer multiples of a 10 ms base tick (all periods of RATES except 12/16 Hz are multiples of 5 ms)
        return {"k": "det", "c": draw(st.integers(0, 6)) * 0.01}
    hi = 0.3 * period if cls == "light" else 3.0 * period
    lo = 0.0 if cls == "light" else 0.8 * period
    kind = draw(st.sampled_from(["det", "normal", "mix"])) if allow_stochastic else "det"
    u = draw(st.integers(0, 100)) / 100.0
    c = round(lo + u * (hi - lo), 4)
    if kind == "det":
        return {"k": "det", "c": c}
    if kind == "normal":
        return {"k": "normal", "mu": c, "sigma": max(1e-4, round(draw(st.integers(1, 50)) / 100.0 * max(c, 0.1 * period), 4))}
    n = draw(st.integers(2, 3))
    mus = [round(max(0.0, c * draw(st.integers(30, 200)) / 100.0), 4) for _ in range(n)]
    sig = [max(1e-4, round(draw(st.integers(1, 40)) / 100.0 * max(c, 0.1 * period), 4)) for _ in range(n)]  # a normal needs scale > 0
    w = [draw(st.integers(1, 5)) for _ in range(n)]
    return {"k": "mix", "mus": mus, "sigmas": sig, "w": [x / sum(w) for x in w]}


def make_dist(d):
    import distrax
    import jax.numpy as jnp

    from rex.base import StaticDist, TrainableDist

    if d["k"] == "det":
        return StaticDist.create(distrax.Deterministic(loc=d["c"]))
    if d["k"] == "normal":
        return StaticDist.create(distrax.Normal(loc=d["mu"], scale=d["sigma"]))
    if d["k"] == "mix":
        return StaticDist.create(
            distrax.MixtureSameFamily(
                mixture_distribution=distrax.Categorical(probs=jnp.array(d["w"])),
                components_distribution=distrax.Normal(loc=jnp.array(d["mus"]), scale=jnp.array(d["sigmas"])),
            )
        )
    if d["k"] == "train":
        return TrainableDist.create(delay=d["d"], min=d["min"], max=d["max"], interp=d.get("interp", "zoh"))
    raise ValueError(d)


def expected_delay(d):
    """rex's default: the 99th percentile (computed by rex itself only when exp_delay is None)."""
    return None


# ------------------------------------------------------------------ systems


@st.composite
def system_spec(
    draw,
    min_nodes=2,
    max_nodes=5,
    allow_blocking=True,
    allow_back=True,
    allow_advance=True,
    allow_buffer=True,
    allow_phase=True,
    classes=("light", "heavy", "tie", "zero"),
    max_eps=3,
    min_steps=3,
    max_steps=12,
    stochastic=True,
):
    n = draw(st.integers(min_nodes, max_nodes))
    cls = draw(st.sampled_from(list(classes)))
    pool = [5, 10, 20, 25, 50] if cls == "tie" else RATES
    base_rate = draw(st.sampled_from(pool))
    ok_rates = [r for r in pool if max(r, base_rate) / min(r, base_rate) <= 5]
    nodes = []
    for i in range(n):
        rate = base_rate if i == 0 else draw(st.sampled_from(ok_rates))
        # keep pairwise ratio <= 5
        rmin = min([x["rate"] for x in nodes] + [rate])
        rmax = max([x["rate"] for x in nodes] + [rate])
        if rmax / rmin > 5:
            rate = base_rate
        ncls = cls if cls != "heavy" else draw(st.sampled_from(["heavy", "light", "light"]))
        nodes.append(
            dict(
                name=f"n{i}",
                rate=rate,
                delay=draw(dist_spec(1.0 / rate, ncls, stochastic)),
                exp_delay=None,
                advance=False,
                scheduling=draw(st.sampled_from(["FREQUENCY", "PHASE"])) if allow_phase else "FREQUENCY",
            )
        )
    # forward edges along the order n0 -> n1 -> ... (sender has the lower index), each node i>0 gets >= 1 input from a lower index
    conns = []
    for j in range(1, n):
        srcs = draw(st.lists(st.integers(0, j - 1), min_size=1, max_size=min(j, 2), unique=True))
        for i in srcs:
            conns.append((i, j, False))
    # back edges (always skip=True: an un-skipped cycle is the documented algebraic-loop error)
    if allow_back and n >= 2:
        nb = draw(st.integers(0, 2))
        for _ in range(nb):
            j = draw(st.integers(1, n - 1))
            i = draw(st.integers(0, j - 1))
            if not any(c[0] == j and c[1] == i for c in conns):
                conns.append((j, i, True))
    cspecs = []
    for src, dst, back in conns:
        blocking = draw(st.booleans()) if allow_blocking else False
        ccls = cls if cls != "heavy" else draw(st.sampled_from(["heavy", "light", "light"]))
        cspecs.append(
            dict(
                src=f"n{src}",
                dst=f"n{dst}",
                blocking=blocking,
                skip=True if back else draw(st.integers(0, 4)) == 0,
                jitter="BUFFER" if (allow_buffer and not blocking and draw(st.integers(0, 3)) == 0) else "LATEST",
                window=draw(st.integers(1, 4)),
                delay=draw(dist_spec(1.0 / nodes[src]["rate"], ccls, stochastic)),
                exp_delay=None,
            )
        )
    if allow_advance:
        for nd in nodes:
            has_blocking = any(c["dst"] == nd["name"] and c["blocking"] for c in cspecs)
            if has_blocking and draw(st.integers(0, 3)) == 0:
                nd["advance"] = True
    with_inputs = sorted({c["dst"] for c in cspecs})  # a supervisor without inputs has an empty compiled partition
    sup = draw(st.sampled_from(with_inputs)) if draw(st.integers(0, 9)) > 0 else f"n{draw(st.integers(0, n - 1))}"
    n_eps = draw(st.integers(1, max_eps))
    episodes = [draw(st.integers(min_steps, max_steps)) for _ in range(n_eps)]
    spec = dict(
        nodes=nodes,
        conns=cspecs,
        supervisor=sup,
        seed=draw(st.integers(0, 2**31 - 1)),
        episodes=episodes,
        jit={nd["name"]: draw(st.integers(0, 3)) == 0 for nd in nodes},
        cls=cls,
        carry=draw(st.booleans()) if n_eps > 1 else False,
    )
    make_supported(spec)
    return spec


# ------------------------------------------------------------------ expected phases / supported class


def _exp_delay(d, explicit):
    if explicit is not None:
        return explicit
    if d["k"] == "det":
        return d["c"]
    if d["k"] == "normal":
        return max(0.0, d["mu"] + 2.3263478740408408 * d["sigma"])
    if d["k"] == "mix":
        return max(0.0, max(m + 2.33 * s for m, s in zip(d["mus"], d["sigmas"])))  # upper bound, good enough for L
    if d["k"] == "train":
        return d["d"]
    raise ValueError(d)


def phases(spec):
    """Longest expected-delay path (own DP): phase(n) = max over non-skipped inputs of phase(src)+delay(src)+delay(conn)."""
    nodes = {n["name"]: n for n in spec["nodes"]}
    memo = {}

    def ph(name, stack=()):
        if name in memo:
            return memo[name]
        if name in stack:
            raise RecursionError("algebraic loop")
        best = 0.0
        for c in spec["conns"]:
            if c["dst"] == name and not c["skip"]:
                s = nodes[c["src"]]
                best = max(best, ph(c["src"], stack + (name,)) + _exp_delay(s["delay"], s["exp_delay"]) + _exp_delay(c["delay"], c["exp_delay"]))
        memo[name] = best
        return best

    return {n: ph(n) for n in nodes}


def _on_cycle(spec):
    """Set of connections (src,dst) that lie on a directed cycle."""
    succ = {}
    for c in spec["conns"]:
        succ.setdefault(c["src"], set()).add(c["dst"])

    def reach(a):
        seen, todo = set(), [a]
        while todo:
            x = todo.pop()
            for y in succ.get(x, ()):
                if y not in seen:
                    seen.add(y)
                    todo.append(y)
        return seen

    R = {n["name"]: reach(n["name"]) for n in spec["nodes"]}
    return {(c["src"], c["dst"]) for c in spec["conns"] if c["src"] in R[c["dst"]]}


def lookahead_demand(spec):
    """max L(R,S) = rate_R*(phase_S - phase_R + 1/rate_S) + 2 over the deadlock pattern of DESIGN §2.1 (0 if no pattern)."""
    nodes = {n["name"]: n for n in spec["nodes"]}
    ph = phases(spec)
    cyc = _on_cycle(spec)
    nb_in_cycle = {c["dst"] for c in spec["conns"] if not c["blocking"] and (c["src"], c["dst"]) in cyc}
    # blocking-only reachability: R reaches S through blocking connections
    bsucc = {}
    for c in spec["conns"]:
        if c["blocking"]:
            bsucc.setdefault(c["src"], set()).add(c["dst"])

    def breach(a):
        seen, todo = {a}, [a]
        while todo:
            x = todo.pop()
            for y in bsucc.get(x, ()):
                if y not in seen:
                    seen.add(y)
                    todo.append(y)
        return seen

    L = 0.0
    for c in spec["conns"]:
        if c["blocking"] or (c["src"], c["dst"]) not in cyc:
            continue
        S = c["src"]
        for R in nodes:
            if S in breach(R) and R != S and (R == c["dst"] or R in nb_in_cycle):
                L = max(L, nodes[R]["rate"] * (ph[S] - ph[R] + 1.0 / nodes[S]["rate"]) + 2)
    return L


def make_supported(spec, threshold=8.0):
    """Constructive restriction to the supported class: where the look-ahead demand is too large, give the whole
    system explicit zero expected delays (the public way to decouple phases from the simulated distributions).
    An advance=True node on a cycle gets a strictly positive deterministic computation delay: with zero delay such a
    loop is instantaneous (the node starts the moment its input arrives, its output arrives the same instant) and the
    runtime waits forever for a time stamp strictly in the future - the same 'infinitely fast' situation rex rejects
    for advance nodes without blocking inputs (calibration battery: 2 of 480 systems, both of this shape)."""
    cyc_nodes = {n for c in _on_cycle(spec) for n in c}
    for n in spec["nodes"]:
        if n["advance"] and n["name"] in cyc_nodes:
            d = n["delay"]
            c = d["c"] if d["k"] == "det" else (d["mu"] if d["k"] == "normal" else max(d["mus"]))
            n["delay"] = {"k": "det", "c": round(max(c, 0.001), 4)}
    if lookahead_demand(spec) > threshold:
        for n in spec["nodes"]:
            n["exp_delay"] = 0.0
        for c in spec["conns"]:
            c["exp_delay"] = 0.0
        spec["phases_zeroed"] = True
    return spec


# ------------------------------------------------------------------ builders


def build_nodes(spec, trace=None, node_cls=None):
    from rex.constants import Jitter, Scheduling

    from rexverif.probes import ProbeNode

    node_cls = node_cls or ProbeNode
    nodes = {}
    for i, n in enumerate(spec["nodes"]):
        kw = dict(
            name=n["name"],
            rate=n["rate"],
            delay_dist=make_dist(n["delay"]),
            delay=n["exp_delay"],
            advance=n["advance"],
            scheduling=Scheduling.PHASE if n["scheduling"] == "PHASE" else Scheduling.FREQUENCY,
        )
        nodes[n["name"]] = node_cls(nid=i + 1, trace=trace, const=n.get("const", 0), **kw)
    for c in spec["conns"]:
        nodes[c["dst"]].connect(
            nodes[c["src"]],
            blocking=c["blocking"],
            delay_dist=make_dist(c["delay"]),
            delay=c["exp_delay"],
            window=c["window"],
            skip=c["skip"],
            jitter=Jitter.BUFFER if c["jitter"] == "BUFFER" else Jitter.LATEST,
            name=c.get("name"),
        )
    return nodes
