"""One shard of a check, in its own process: python -m rexverif.worker <mode> <ID> <tier> <seed> <shard> <nshards> <n> <out> [extra json]"""
import json
import os
import sys
import time


def main():
    mode, pid, tier, seed, shard, nshards, n, out = sys.argv[1:9]
    extra = json.loads(sys.argv[9]) if len(sys.argv) > 9 else {}
    seed, shard, nshards, n = int(seed), int(shard), int(nshards), int(n)
    from rexverif import common

    t0 = time.time()
    prop = common.load_prop(pid)
    col = common.Collector(pid)
    result = dict(mode=mode, shard=shard)
    try:
        if hasattr(prop, "setup_worker"):
            prop.setup_worker(tier)
        if mode == "explore":
            # plain regression cases first (seconds-long replay tier), only in shard 0
            if shard == 0:
                for case in getattr(prop, "regressions", lambda: [])():
                    col.add(case, prop.check(case))
            stopped = False
            if n > 0:
                stopped = common.run_hypothesis(
                    prop, tier, seed * 1000 + shard, n, col, time_budget_s=extra.get("budget_s"), skip_first=shard != 0
                )
            if hasattr(prop, "extra"):
                prop.extra(tier, seed, shard, nshards, col)
            result["budget_hit"] = stopped
        elif mode == "shrink":
            case, shrunk = common.shrink_failure(
                prop, tier, extra["seed"], extra["clause"], extra["case"], budget_s=extra.get("budget_s", 120.0)
            )
            res = prop.check(case)
            detail = [d for c, d in res.failures if c == extra["clause"]]
            result.update(case=case, shrunk=shrunk, still_fails=bool(detail), detail=detail[0] if detail else None)
        elif mode == "replay":
            reps = int(extra.get("reps", 1))
            for _ in range(reps):
                col.add(extra["case"], prop.check(extra["case"]))
        else:
            raise ValueError(mode)
    except BaseException:
        col.errors.append(common.fmt_exc())
    result.update(col.to_json())
    result["wall_s"] = time.time() - t0
    with open(out, "w") as f:
        json.dump(common.jsonable(result), f)
    sys.stdout.flush()
    # background threads of the code under test must never keep a worker alive
    os._exit(0)


if __name__ == "__main__":
    main()
