"""Reference models written from the documentation: expected phases, the start-time law (C04), the message selection
policies and window contents (C03). They read only configuration and *recorded* values; they share no code with rex."""
import numpy as onp

TOL = 2e-6  # rex rounds simulated time stamps to 1 us


def r6(x):
    return round(x, 6)


def config_of(nodes):
    """Configuration as the user set it (public attributes of the connected nodes) + own longest-path phases."""
    from rex.constants import Jitter, Scheduling

    cfg = {}
    for name, n in nodes.items():
        ins = {}
        for input_name, c in n.inputs.items():
            ins[c.output_node.name] = dict(
                input_name=input_name,
                src=c.output_node.name,
                blocking=bool(c.blocking),
                skip=bool(c.skip),
                buffer=c.jitter == Jitter.BUFFER,
                window=int(c.window),
                delay=float(c.delay),
                rate_src=float(c.output_node.rate),
            )
        cfg[name] = dict(rate=float(n.rate), delay=float(n.delay), advance=bool(n.advance), phase_sched=n.scheduling == Scheduling.PHASE, inputs=ins)
    memo = {}

    def ph(name, stack=()):
        if name in memo:
            return memo[name]
        if name in stack:
            raise RecursionError("algebraic loop")
        best = 0.0
        for src, c in cfg[name]["inputs"].items():
            if not c["skip"]:
                best = max(best, ph(src, stack + (name,)) + cfg[src]["delay"] + c["delay"])
        memo[name] = best
        return best

    for name in cfg:
        cfg[name]["phase"] = ph(name)
    return cfg


def det_value(dist_spec):
    """float value the runtime draws for a deterministic distribution (samples are float32), else None."""
    if dist_spec["k"] == "det":
        return float(onp.float32(dist_spec["c"]))
    if dist_spec["k"] == "normal" and dist_spec["sigma"] == 0:
        return float(onp.float32(max(dist_spec["mu"], 0.0)))
    if dist_spec["k"] == "train":
        return None  # constant, but computed as min + alpha * (max - min) in float32: not asserted bit-exactly here
    return None


# ---------------------------------------------------------------------------------------------- C04


def check_timing_law(rec, cfg, spec, res, prefix="C04."):
    """Start-time recurrence evaluated from configuration + recorded delays and arrivals."""
    nspec = {n["name"]: n for n in spec["nodes"]}
    cspec = {(c["src"], c["dst"]): c for c in spec["conns"]}
    for name, nr in rec.nodes.items():
        c = cfg[name]
        st_ = nr.steps
        K = len(st_.seq)
        if K == 0:
            continue
        rate, phase = c["rate"], c["phase"]
        only_blocking = c["advance"] and all(i["blocking"] for i in c["inputs"].values())
        has_blocking = any(i["blocking"] for i in c["inputs"].values())
        # latest blocking arrival per step
        in_k = onp.zeros(K)
        for src, ic in c["inputs"].items():
            if not ic["blocking"]:
                continue
            m = nr.inputs[src].messages
            for si, tr in zip(onp.atleast_1d(m.seq_in), onp.atleast_1d(m.ts_recv)):
                if 0 <= si < K:
                    in_k[si] = max(in_k[si], float(tr))
        D = 0.0
        det_c = det_value(nspec[name]["delay"])
        for k in range(K):
            sched = r6(k / rate + phase)
            prev = float(st_.ts_end[k - 1]) if k > 0 else 0.0
            start = float(st_.ts_start[k])
            end = float(st_.ts_end[k])
            delay = float(st_.delay[k])
            want = max(in_k[k], prev) if only_blocking else max(in_k[k], prev, sched + D)
            if abs(start - want) > TOL:
                res.fail(prefix + "start_time_law", dict(node=name, k=k, got=start, want=want, sched=sched, drift=D, prev_end=prev, in_max=in_k[k],
                                                         scheduling="PHASE" if c["phase_sched"] else "FREQUENCY", advance=c["advance"], only_blocking=only_blocking))
                return
            if not only_blocking and start < sched - TOL:
                res.fail(prefix + "starts_before_schedule", dict(node=name, k=k, start=start, sched=sched))
                return
            if abs(end - (start + delay)) > TOL:
                res.fail(prefix + "end_is_start_plus_delay", dict(node=name, k=k, start=start, end=end, delay=delay))
                return
            if delay < -1e-12:
                res.fail(prefix + "negative_computation_delay", dict(node=name, k=k, delay=delay))
                return
            if det_c is not None and abs(delay - det_c) > 1e-9:
                res.fail(prefix + "deterministic_computation_delay", dict(node=name, k=k, delay=delay, want=det_c))
                return
            if abs(float(st_.ts_scheduled[k]) - sched) > TOL:
                res.fail(prefix + "recorded_schedule", dict(node=name, k=k, got=float(st_.ts_scheduled[k]), want=sched))
                return
            # classes
            if prev > sched + D + TOL:
                res.label("overrun")
            if in_k[k] > sched + D + TOL and in_k[k] >= prev:
                res.label("input_late")
            if c["phase_sched"] and only_blocking:
                pass  # advance with only blocking inputs ignores the schedule altogether
            elif c["phase_sched"]:
                if k > 0 and prev <= sched and in_k[k] <= sched:
                    if abs(start - sched) > TOL:
                        res.fail(prefix + "phase_back_on_grid", dict(node=name, k=k, start=start, sched=sched))
                        return
                    if float(st_.ts_start[k - 1]) > r6((k - 1) / rate + phase) + TOL:
                        res.label("phase_catch_up")
            else:
                if k > 0 and not has_blocking:
                    gap = start - float(st_.ts_start[k - 1])
                    if gap < 1.0 / rate - TOL:
                        res.fail(prefix + "frequency_min_spacing", dict(node=name, k=k, gap=gap, period=1.0 / rate))
                        return
                Dn = max(D, prev - sched)
                if Dn > D + TOL:
                    res.label("frequency_drift")
                D = Dn
            if only_blocking and start < sched - TOL:
                res.label("advance_before_schedule")
        # communication: recv = max(end + comm, previous recv), exact for deterministic communication delays
        for src, ic in c["inputs"].items():
            m = nr.inputs[src].messages
            seq_out = onp.atleast_1d(m.seq_out)
            ts_sent = onp.atleast_1d(m.ts_sent)
            ts_recv = onp.atleast_1d(m.ts_recv)
            src_end = rec.nodes[src].steps.ts_end
            cdet = det_value(cspec[(src, name)]["delay"])
            prev_recv = 0.0
            for i in range(len(seq_out)):
                so = int(seq_out[i])
                if 0 <= so < len(src_end) and abs(float(ts_sent[i]) - float(src_end[so])) > TOL:
                    res.fail(prefix + "sent_is_sender_end", dict(conn=[src, name], i=i, ts_sent=float(ts_sent[i]), sender_end=float(src_end[so])))
                    return
                eff = float(ts_recv[i]) - float(ts_sent[i])
                if eff < -1e-6:
                    res.fail(prefix + "negative_effective_comm_delay", dict(conn=[src, name], i=i, eff=eff))
                    return
                if cdet is not None:
                    want = r6(max(float(ts_sent[i]) + cdet, prev_recv))
                    if abs(float(ts_recv[i]) - want) > TOL:
                        res.fail(prefix + "recv_is_end_plus_comm_delay", dict(conn=[src, name], i=i, got=float(ts_recv[i]), want=want, comm=cdet))
                        return
                prev_recv = float(ts_recv[i])


# ---------------------------------------------------------------------------------------------- C03


def _first_step(starts, a, strict, exact=True):
    """index of the first step with start >= a (> a if strict); None if there is none."""
    for k, s in enumerate(starts):
        if (s > a) if strict else (s >= a):
            return k
    return None


def check_causality(rec, cfg, spec, res, prefix="C03.", timed=True, default_of=None):
    """Delivery / ordering / causality / policy / window clauses over one episode record.
    timed=False (wall clock): only delivery, ordering and causality."""
    for name, nr in rec.nodes.items():
        c = cfg[name]
        st_ = nr.steps
        K = len(st_.seq)
        seq = onp.atleast_1d(st_.seq)
        if not onp.array_equal(seq, onp.arange(K)):
            res.fail(prefix + "step_seq_gap_free", dict(node=name, seq=seq.tolist()[:20]))
            return
        starts = [float(x) for x in onp.atleast_1d(st_.ts_start)]
        ends = [float(x) for x in onp.atleast_1d(st_.ts_end)]
        for k in range(K):
            if ends[k] < starts[k] - TOL:
                res.fail(prefix + "step_ends_before_start", dict(node=name, k=k))
                return
            if k > 0 and starts[k] < ends[k - 1] - TOL:
                res.fail(prefix + "steps_overlap", dict(node=name, k=k, start=starts[k], prev_end=ends[k - 1]))
                return
        for src, ic in c["inputs"].items():
            m = nr.inputs[src].messages
            seq_out = onp.atleast_1d(m.seq_out).astype(int)
            seq_in = onp.atleast_1d(m.seq_in).astype(int)
            ts_sent = onp.atleast_1d(m.ts_sent).astype(float)
            ts_recv = onp.atleast_1d(m.ts_recv).astype(float)
            M = len(seq_out)
            conn = [src, name]
            if not onp.array_equal(seq_out, onp.arange(M)):
                res.fail(prefix + "messages_lost_duplicated_or_reordered", dict(conn=conn, seq_out=seq_out.tolist()[:30]))
                return
            if M and (onp.diff(seq_in) < 0).any():
                res.fail(prefix + "seq_in_not_monotone", dict(conn=conn, seq_in=seq_in.tolist()[:30]))
                return
            if M and (onp.diff(ts_recv) < -1e-9).any():
                res.fail(prefix + "not_fifo", dict(conn=conn, ts_recv=ts_recv.tolist()[:30]))
                return
            if M and (ts_recv < ts_sent - 1e-6).any():
                i = int(onp.argmax(ts_recv < ts_sent - 1e-6))
                res.fail(prefix + "received_before_sent", dict(conn=conn, i=i, sent=ts_sent[i], recv=ts_recv[i]))
                return
            for i in range(M):
                k = seq_in[i]
                if not (0 <= k < K):
                    res.fail(prefix + "consumed_by_unrecorded_step", dict(conn=conn, i=i, seq_in=int(k), K=K))
                    return
                if starts[k] < ts_recv[i] - TOL:
                    res.fail(prefix + "consumed_before_arrival", dict(conn=conn, i=i, step=int(k), start=starts[k], recv=ts_recv[i]))
                    return
            if not timed:
                continue
            # ---- the policy-prescribed consumer
            rate_s = ic["rate_src"]
            if ic["blocking"]:
                ph_r, ph_s = r6(c["phase"]), r6(cfg[src]["phase"])
                for i in range(M):
                    tau = r6(i / rate_s + ph_s)
                    want, near = None, False
                    for N in range(K + 1):
                        T = r6(N / c["rate"] + ph_r)
                        if abs(T - tau) < TOL and T != tau:
                            near = True
                        if (T > tau) if ic["skip"] else (T >= tau):
                            want = N
                            break
                    if want is None or want >= K:
                        res.fail(prefix + "blocking_message_consumed_too_early", dict(conn=conn, i=i, seq_in=int(seq_in[i]), want=">= %d" % K))
                        return
                    if seq_in[i] != want and not near:
                        res.fail(prefix + "blocking_phase_determined_step", dict(conn=conn, i=i, seq_in=int(seq_in[i]), want=want, tau=tau, skip=ic["skip"]))
                        return
                    if near:
                        res.label("tie_tolerant")
                    if abs(r6(want / c["rate"] + ph_r) - tau) < 1e-9:
                        res.label("blocking_tie")
            else:
                ph_conn = cfg[src]["phase"] + cfg[src]["delay"] + ic["delay"]
                for i in range(M):
                    a = ts_recv[i]
                    if ic["buffer"]:
                        e = i / rate_s + ph_conn
                        want = None
                        for k, s in enumerate(starts):
                            arrived = (s > a) if ic["skip"] else (s >= a)
                            if arrived and s >= e:
                                want = k
                                break
                        near = any(abs(s - e) < 1e-9 for s in starts)  # expected time recomputed by the oracle
                        if any(s == a for s in starts):
                            res.label("nonblocking_tie")
                    else:
                        want = _first_step(starts, a, ic["skip"])
                        near = False
                        if any(s == a for s in starts):
                            res.label("nonblocking_tie")
                    if want is None:
                        res.fail(prefix + "message_consumed_although_no_step_started_after_arrival", dict(conn=conn, i=i))
                        return
                    if seq_in[i] != want:
                        if near:
                            res.label("tie_tolerant")
                            continue
                        res.fail(
                            prefix + ("buffer_policy_step" if ic["buffer"] else "latest_policy_step"),
                            dict(conn=conn, i=i, seq_in=int(seq_in[i]), want=want, recv=a, skip=ic["skip"], start_want=starts[want], start_got=starts[seq_in[i]]),
                        )
                        return
            # ---- consumption statistics
            if M:
                per = onp.bincount(seq_in, minlength=K)
                if (per[: seq_in.max() + 1] == 0).any() and (per >= 2).any():
                    res.label("some_steps_consume_0_and_some_2plus")
                if (onp.diff(ts_recv) == 0).any():
                    res.label("fifo_clamp_or_equal_arrival")
            # ---- windows: last `window` consumed messages, oldest first, left-padded with defaults
            ins = st_.inputs
            if ins is not None and ic["input_name"] in ins:
                w = ins[ic["input_name"]]
                W = ic["window"]
                wseq = onp.asarray(w.seq)
                if wseq.shape != (K, W):
                    res.fail(prefix + "window_shape", dict(conn=conn, got=wseq.shape, want=(K, W)))
                    return
                payload = onp.asarray(w.data.a) if hasattr(w.data, "a") else None
                for k in range(K):
                    consumed = [i for i in range(M) if seq_in[i] <= k]
                    last = consumed[-W:]
                    pad = W - len(last)
                    got_seq = wseq[k]
                    if (got_seq[:pad] >= 0).any():
                        res.fail(prefix + "window_padding", dict(conn=conn, k=k, got=got_seq.tolist(), want_real=last))
                        return
                    if got_seq[pad:].tolist() != [int(seq_out[i]) for i in last]:
                        res.fail(prefix + "window_contents", dict(conn=conn, k=k, got=got_seq.tolist(), want=[-1] * pad + [int(seq_out[i]) for i in last], window=W))
                        return
                    for j, i in enumerate(last):
                        if abs(float(w.ts_recv[k][pad + j]) - ts_recv[i]) > TOL or abs(float(w.ts_sent[k][pad + j]) - ts_sent[i]) > TOL:
                            res.fail(prefix + "window_timestamps", dict(conn=conn, k=k, j=j))
                            return
                        if payload is not None and int(payload[k][pad + j][1]) != int(seq_out[i]):
                            res.fail(prefix + "window_payload", dict(conn=conn, k=k, j=j, payload=payload[k][pad + j].tolist(), want_seq=int(seq_out[i])))
                            return
                    if payload is not None and pad and (payload[k][:pad, 1] != -1).any():
                        res.fail(prefix + "window_default_payload", dict(conn=conn, k=k, payload=payload[k][:pad].tolist()))
                        return
                    if pad:
                        res.label("window_not_yet_filled")
