"""Running threaded (AsyncGraph) episodes under a watchdog, and reading records back as plain numpy."""
import sys
import threading
import time

import numpy as onp


class Hang(Exception):
    def __init__(self, call, info=None):
        super().__init__(f"lifecycle call did not return: {call}")
        self.call = call
        self.info = info


def _progress_snapshot(graph):
    snap = []
    for name, n in graph._async_nodes.items():
        snap.append((name, n._tick, len(n._record_steps or []), n._state.name))
        for c in n.inputs.values():
            snap.append((name, c.connection.input_name, c._tick, len(c.q_msgs or []), len(c.q_ts_input or [])))
    return snap


def call_with_watchdog(graph, label, fn, *args, budget_s=20.0, quiesce_s=2.0, hard_cap_s=120.0, **kwargs):
    """Run fn on a helper thread. Declared hung only if it has not returned after budget_s AND the per-node progress
    counters did not move during a further quiesce_s (slow is not hung)."""
    box = {}

    def target():
        try:
            box["res"] = fn(*args, **kwargs)
        except BaseException as e:  # noqa
            box["exc"] = e

    th = threading.Thread(target=target, name=f"verif-call-{label}", daemon=True)
    th.start()
    t0 = time.time()
    th.join(budget_s)
    while th.is_alive():
        if time.time() - t0 > hard_cap_s:
            # still "progressing" but the call never returns: some node free-runs while the caller waits (livelock)
            raise Hang(label, dict(livelock=True, snapshot=[list(map(str, x)) for x in _progress_snapshot(graph)][:40]))
        s1 = _progress_snapshot(graph)
        th.join(quiesce_s)
        if not th.is_alive():
            break
        s2 = _progress_snapshot(graph)
        if s1 == s2:
            frames = {}
            for tid, fr in sys._current_frames().items():
                frames[tid] = f"{fr.f_code.co_filename.split('/')[-1]}:{fr.f_lineno}:{fr.f_code.co_name}"
            raise Hang(label, dict(snapshot=[list(map(str, x)) for x in s2][:40], frames=list(frames.values())[:40]))
    if "exc" in box:
        raise box["exc"]
    return box.get("res")


def to_np(tree):
    import jax

    return jax.tree_util.tree_map(lambda x: onp.asarray(x), tree)


def shutdown(graph):
    """Best effort: stop the graph and release executor threads so they do not accumulate over cases."""
    try:
        call_with_watchdog(graph, "final-stop", graph.stop, budget_s=10.0, quiesce_s=1.0)
    except BaseException:
        pass
    for n in graph._async_nodes.values():
        try:
            n._executor.shutdown(wait=False, cancel_futures=True)
            for c in n.inputs.values():
                c._executor.shutdown(wait=False, cancel_futures=True)
        except BaseException:
            pass


class AsyncRun:
    """One AsyncGraph built from a spec; episodes are driven with run() or reset()/step()."""

    def __init__(self, spec, clock="SIMULATED", rtf=0, trace=None, record=True, record_settings=None, max_records=None, node_cls=None):
        import jax

        from rex.asynchronous import AsyncGraph
        from rex.constants import Clock

        from rexverif import sysgen
        from rexverif.probes import Trace

        self.spec = spec
        self.trace = trace if trace is not None else Trace()
        self.nodes = sysgen.build_nodes(spec, trace=self.trace, node_cls=node_cls)
        self.sup = self.nodes[spec["supervisor"]]
        self.graph = AsyncGraph(
            nodes=self.nodes, supervisor=self.sup, clock=Clock.SIMULATED if clock == "SIMULATED" else Clock.WALL_CLOCK,
            real_time_factor=rtf if clock == "SIMULATED" else 1.0,
        )
        if record:
            rs = record_settings or dict(params=True, rng=True, inputs=True, state=True, output=True)
            self.graph.set_record_settings(max_records=max_records, **rs)
        self.gs0 = self.graph.init(jax.random.PRNGKey(spec["seed"]))
        # warmup (profile=False) compiles ahead of time and must not *execute* a step: executions during warmup stay in
        # the trace (as extra rows of (node, eps 0, seq 0)) so that C06 / C01 see them
        self.graph.warmup(self.gs0, jit_step=dict(spec.get("jit", {})), profile=False)
        self.starts = {}
        self.last_gs = None

    def start_state(self, e):
        """Initial graph state of episode e: gs0, or (spec['carry']) gs0 with the per-node rng / state / seq / ts the
        previous episode ended with - the user keeps node state across episodes but re-initialises the input buffers."""
        import jax

        gs = self.gs0
        last = getattr(self, "last_gs", None)
        if e > 0 and self.spec.get("carry") and last is not None:
            last = jax.tree_util.tree_map(lambda x: onp.asarray(x), last)
            gs = gs.replace(rng=last.rng, state=last.state, seq=last.seq, ts=last.ts)
        gs = gs.replace(eps=onp.int32(e))
        self.starts[e] = gs
        return gs

    def call(self, label, fn, *a, budget_s=20.0, **kw):
        return call_with_watchdog(self.graph, label, fn, *a, budget_s=budget_s, **kw)

    def episode_run(self, gs, n_steps, budget_s=20.0):
        """run() x n_steps then stop(); returns (list of returned graph states as numpy, record)."""
        outs = []
        for i in range(n_steps):
            gs = self.call(f"run#{i}", self.graph.run, gs, budget_s=budget_s)
            outs.append(to_np(gs.step_state[self.sup.name]))
            self.last_gs = gs
        self.call("stop", self.graph.stop, budget_s=budget_s)
        return outs, to_np(self.graph.get_record())

    def episode_step(self, gs, n_steps, override=None, budget_s=20.0):
        """reset() then step() x n_steps then stop(). override(i, ss) -> (ss, output) or None."""
        outs = []
        gs, ss = self.call("reset", self.graph.reset, gs, budget_s=budget_s)
        outs.append(to_np(ss))
        for i in range(n_steps):
            ov = override(i, ss) if override is not None else None
            if ov is None:
                gs, ss = self.call(f"step#{i}", self.graph.step, gs, budget_s=budget_s)
            else:
                gs, ss = self.call(f"step#{i}", self.graph.step, gs, ov[0], ov[1], budget_s=budget_s)
            outs.append(to_np(ss))
            self.last_gs = gs
        self.call("stop", self.graph.stop, budget_s=budget_s)
        return outs, to_np(self.graph.get_record())

    def close(self):
        shutdown(self.graph)
