"""Independent generator of computation graphs (rex.base.Graph) built directly from the Vertex/Edge/Graph docstrings,
plus reference computations over them (windowed dependency graph, window model). Shares no code with rex's generators."""
import numpy as onp
from hypothesis import strategies as st

TICK = 0.01  # all times are integer multiples of 10 ms, so ties (arrival == start) are frequent and exact in float32/64


@st.composite
def raw_case(draw, max_nodes=4, max_eps=3, max_steps=9, trainable=False):
    """Returns a JSON spec: nodes (name, rate only nominal), conns (src,dst,window,skip/back), per episode vertex and message times."""
    n = draw(st.integers(2, max_nodes))
    names = [f"n{i}" for i in range(n)]
    conns = []
    for j in range(1, n):
        for i in draw(st.lists(st.integers(0, j - 1), min_size=1, max_size=min(j, 2), unique=True)):
            conns.append(dict(src=names[i], dst=names[j], back=False, window=draw(st.integers(1, 4))))
    for _ in range(draw(st.integers(0, 2))):
        j = draw(st.integers(1, n - 1))
        i = draw(st.integers(0, j - 1))
        if not any(c["src"] == names[j] and c["dst"] == names[i] for c in conns):
            conns.append(dict(src=names[j], dst=names[i], back=True, window=draw(st.integers(1, 4))))
    with_inputs = sorted({c["dst"] for c in conns})
    sup = draw(st.sampled_from(with_inputs[:2] + with_inputs))  # early supervisors leave more downstream (non-ancestor) nodes
    n_eps = draw(st.integers(1, max_eps))
    # high rate ratio class: one node runs 11-16 times per supervisor step (more than 10 slots of one kind in a partition)
    others = [nm for nm in names if nm != sup]
    # (two-node systems get it more often: only there all generations hold the same kinds, which selects the scanned
    # "uniform" execution path of the partition runner)
    fast = draw(st.sampled_from(others)) if draw(st.integers(0, 1 if n == 2 else 5)) == 0 else None
    episodes = []
    for _e in range(n_eps):
        verts = {}
        for nm in names:
            if fast is not None and nm == fast:
                K = draw(st.integers(20, 34))
                t0 = draw(st.integers(0, 2))
                verts[nm] = dict(start=[t0 + k for k in range(K)], end=[t0 + k for k in range(K)])
                continue
            K = draw(st.integers(2 if nm == sup else 1, max_steps)) if fast is None else draw(st.integers(3 if nm == sup else 1, 4))
            t = draw(st.integers(0, 6))
            starts, ends = [], []
            for _k in range(K):
                dur = draw(st.sampled_from([0, 0, 1, 1, 2, 3, 4, 9, 17, 33])) if fast is None else draw(st.integers(0, 2))
                starts.append(t)
                ends.append(t + dur)
                gap = draw(st.integers(0 if dur > 0 else 1, 5))
                if fast is not None and nm == sup:
                    gap = draw(st.integers(11, 16))  # supervisor steps far apart: many fast-node vertices per partition
                t = t + dur + gap
            verts[nm] = dict(start=starts, end=ends)
        edges = []
        for c in conns:
            Ks = len(verts[c["src"]]["start"])
            M = draw(st.integers(0, Ks)) if c["src"] != fast else Ks - draw(st.integers(0, 2))  # the fast node's outputs are (nearly) all sent
            recv, prev = [], 0
            for i in range(M):
                r = max(verts[c["src"]]["end"][i] + draw(st.integers(0, 6)), prev)
                recv.append(r)
                prev = r
            edges.append(dict(recv=recv))
        episodes.append(dict(verts=verts, edges=edges))
    out = dict(names=names, conns=conns, supervisor=sup, episodes=episodes)
    if trainable:
        # nominal node rates and trainable (zero-order-hold) delay ranges: the compiled windows must be extended by
        # ceil(rate_sender * (max - min)) entries
        out["rates"] = {nm: draw(st.sampled_from([5, 10, 20, 40, 50])) for nm in names}
        for c in conns:
            if draw(st.integers(0, 2)) == 0:
                lo = draw(st.integers(0, 10)) / 100.0
                c["train"] = dict(min=lo, max=round(lo + draw(st.sampled_from([0.01, 0.03, 0.05, 0.11, 0.2])), 3))
    return out


# ------------------------------------------------------------------ building rex objects


def seq_in_of(case, e, ci):
    """first receiver step starting at/after the arrival (strictly after on back edges); -1 if none."""
    c = case["conns"][ci]
    ep = case["episodes"][e]
    starts = ep["verts"][c["dst"]]["start"]
    out = []
    for r in ep["edges"][ci]["recv"]:
        k = next((k for k, s in enumerate(starts) if (s > r if c["back"] else s >= r)), -1)
        out.append(k)
    return out


def to_rex_graph(case):
    """list of per-episode base.Graph + the stacked (padded) one."""
    from rex import base

    graphs = []
    for e, ep in enumerate(case["episodes"]):
        vertices = {}
        for nm in case["names"]:
            v = ep["verts"][nm]
            K = len(v["start"])
            vertices[nm] = base.Vertex(seq=onp.arange(K, dtype=onp.int32), ts_start=onp.array(v["start"], dtype=onp.float64) * TICK,
                                       ts_end=onp.array(v["end"], dtype=onp.float64) * TICK)
        edges = {}
        for ci, c in enumerate(case["conns"]):
            recv = ep["edges"][ci]["recv"]
            M = len(recv)
            edges[(c["src"], c["dst"])] = base.Edge(seq_out=onp.arange(M, dtype=onp.int32), seq_in=onp.array(seq_in_of(case, e, ci), dtype=onp.int32).reshape(M),
                                                    ts_recv=onp.array(recv, dtype=onp.float64).reshape(M) * TICK)
        graphs.append(base.Graph(vertices=vertices, edges=edges))
    return graphs, base.Graph.stack(graphs)


def to_sys_spec(case):
    """A sysgen spec whose connections carry the window sizes (delays are irrelevant for the compiled runtime)."""
    det = {"k": "det", "c": 0.0}
    rates = case.get("rates", {})
    nodes = [dict(name=nm, rate=rates.get(nm, 10), delay=det, exp_delay=0.0, advance=False, scheduling="FREQUENCY") for nm in case["names"]]
    conns = []
    for c in case["conns"]:
        d = det if "train" not in c else {"k": "train", "min": c["train"]["min"], "max": c["train"]["max"], "d": c["train"]["min"], "interp": "zoh"}
        conns.append(dict(src=c["src"], dst=c["dst"], blocking=False, skip=bool(c["back"]), jitter="LATEST", window=c["window"], delay=d, exp_delay=0.0))
    return dict(nodes=nodes, conns=conns, supervisor=case["supervisor"], seed=0, episodes=[], jit={}, cls="raw")


# ------------------------------------------------------------------ reference computations


def window_extensions(case):
    """{conn index: ceil(rate_sender * (max - min))} for trainable connections."""
    import math

    out = {}
    for ci, c in enumerate(case["conns"]):
        if "train" in c:
            out[ci] = int(math.ceil(case["rates"][c["src"]] * (c["train"]["max"] - c["train"]["min"])))  # same float expression as documented: ceil(rate * (max - min))
    return out


def window_model(case, e, ci, k, extra=0):
    """(list of seq_out, oldest first, left padded with -1) the receiver's step k sees on connection ci."""
    c = case["conns"][ci]
    W = c["window"] + extra
    si = seq_in_of(case, e, ci)
    consumed = [i for i, s in enumerate(si) if 0 <= s <= k]
    last = consumed[-W:]
    return [-1] * (W - len(last)) + last


def dependency_graph(case, e, extra=None):
    """dict vertex -> set of predecessor vertices (stateful edge + producers in the window). vertex = (name, seq)."""
    extra = extra or {}
    ep = case["episodes"][e]
    deps = {}
    for nm in case["names"]:
        for k in range(len(ep["verts"][nm]["start"])):
            deps[(nm, k)] = {(nm, k - 1)} if k > 0 else set()
    for ci, c in enumerate(case["conns"]):
        for k in range(len(ep["verts"][c["dst"]]["start"])):
            for s in window_model(case, e, ci, k, extra.get(ci, 0)):
                if s >= 0:
                    deps[(c["dst"], k)].add((c["src"], s))
    return deps


def ancestors(deps, targets):
    seen, todo = set(), list(targets)
    while todo:
        v = todo.pop()
        for u in deps.get(v, ()):
            if u not in seen:
                seen.add(u)
                todo.append(u)
    return seen
