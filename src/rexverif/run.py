"""bin/check <ID> [--tier quick|thorough] [--replay FILE]

Shards the property's generated-input search over worker processes, merges what they covered, shrinks each failing
clause bucket, writes replay files and evidence/<ID>.json, prints VIOLATION / KNOWN-FINDING lines.
"""
import argparse
import json
import os
import shutil
import subprocess
import sys
import time

from rexverif import common

PY = sys.executable


def spawn(mode, pid, tier, seed, shard, nshards, n, workdir, extra=None, tag=None):
    tag = tag or f"{mode}{shard}"
    out = os.path.join(workdir, f"{tag}.json")
    log = open(os.path.join(workdir, f"{tag}.log"), "w")
    args = [PY, "-m", "rexverif.worker", mode, pid, tier, str(seed), str(shard), str(nshards), str(n), out]
    args.append(json.dumps(extra or {}))
    env = dict(os.environ)
    p = subprocess.Popen(args, stdout=log, stderr=subprocess.STDOUT, env=env, cwd=common.HOME)
    return p, out, log


def wait_all(procs, timeout_s):
    t0 = time.time()
    results, errors = [], []
    for p, out, log in procs:
        remaining = max(1.0, timeout_s - (time.time() - t0))
        try:
            p.wait(timeout=remaining)
        except subprocess.TimeoutExpired:
            p.kill()
            p.wait()
            errors.append(f"worker timed out after {timeout_s}s: {out}")
        log.close()
        if os.path.exists(out):
            with open(out) as f:
                results.append(json.load(f))
        elif not errors or not errors[-1].endswith(out):
            errors.append(f"worker produced no result (exit {p.returncode}): {out}")
    return results, errors


def main():
    ap = argparse.ArgumentParser()
    ap.add_argument("pid")
    ap.add_argument("--tier", default=os.environ.get("VERIF_TIER", "quick"), choices=["quick", "thorough"])
    ap.add_argument("--replay", default=None)
    ap.add_argument("--examples", type=int, default=None, help="override total number of generated cases")
    ap.add_argument("--shards", type=int, default=None)
    a = ap.parse_args()
    pid = a.pid.upper()
    seed = int(os.environ.get("VERIF_SEED", "1") or 1)
    t0 = time.time()
    prop = common.load_prop(pid)
    cfg = dict(prop.TIERS[a.tier])
    ncpu = os.cpu_count() or 1
    nshards = a.shards or min(cfg.get("shards", 16), max(1, ncpu))
    total = a.examples if a.examples is not None else cfg["examples"]
    workdir = os.path.join(common.HOME, ".work", pid)
    shutil.rmtree(workdir, ignore_errors=True)
    os.makedirs(workdir, exist_ok=True)

    # ---------------------------------------------------------------- replay
    if a.replay:
        with open(a.replay) as f:
            rp = json.load(f)
        p = spawn("replay", pid, a.tier, seed, 0, 1, 0, workdir, extra=dict(case=rp["case"], reps=cfg.get("replay_reps", 1)))
        results, errors = wait_all([p], cfg.get("timeout_s", 1800))
        errors += [e for r in results for e in r.get("errors", [])]
        if errors:
            print("harness error:\n" + "\n".join(errors))
            sys.exit(2)
        fails = results[0]["failures"]
        bad = 0
        for clause, fl in fails.items():
            kf = common.match_known(pid, clause, fl["detail"], fl["case"])
            if kf:
                print(f"KNOWN-FINDING: property={pid} {kf['description']}")
            else:
                bad += 1
                print(f"VIOLATION property={pid} replay={a.replay} clause={clause} detail={json.dumps(fl['detail'])[:400]}")
        sys.exit(1 if bad else 0)

    # ---------------------------------------------------------------- explore
    import glob

    for old in glob.glob(os.path.join(common.HOME, "replays", f"{pid}-*.json")):
        os.remove(old)  # replay files belong to the run that wrote them
    per = [total // nshards + (1 if i < total % nshards else 0) for i in range(nshards)]
    extra = dict(budget_s=cfg.get("budget_s"))
    procs = [spawn("explore", pid, a.tier, seed, i, nshards, per[i], workdir, extra=extra) for i in range(nshards)]
    results, errors = wait_all(procs, cfg.get("timeout_s", 1800))

    merged = dict(evaluations=0, nontrivial=set(), classes={}, counters={}, samples=[], failures={}, rejected={}, budget_hit=0)
    for r in results:
        errors += r.get("errors", [])
        merged["evaluations"] += r["evaluations"]
        merged["nontrivial"].update(r["nontrivial"])
        merged["budget_hit"] += 1 if r.get("budget_hit") else 0
        for k in ("classes", "counters", "rejected"):
            for kk, v in r[k].items():
                merged[k][kk] = merged[k].get(kk, 0) + v
        for s in r["samples"]:
            if len(merged["samples"]) < 5:
                merged["samples"].append(s)
        for clause, fl in r["failures"].items():
            cur = merged["failures"].get(clause)
            if cur is None:
                merged["failures"][clause] = dict(fl, shard=r["shard"])
            else:
                cur["count"] += fl["count"]
                if fl["size"] < cur["size"]:
                    cur.update(case=fl["case"], detail=fl["detail"], size=fl["size"], shard=r["shard"])

    # ---------------------------------------------------------------- shrink + report
    lines, n_viol, n_known = [], 0, 0
    shrink_budget = cfg.get("shrink_s", 60)
    todo = []
    for clause, fl in sorted(merged["failures"].items()):
        kf = common.match_known(pid, clause, fl["detail"], fl["case"])
        if kf:
            n_known += 1
            lines.append(f"KNOWN-FINDING: property={pid} {kf['description']}")
            continue
        todo.append((clause, fl))
    shr = []
    for i, (clause, fl) in enumerate(todo[:8]):
        ex = dict(seed=seed * 1000 + fl.get("shard", 0), clause=clause, case=fl["case"], budget_s=shrink_budget)
        shr.append(spawn("shrink", pid, a.tier, seed, i, 1, 0, workdir, extra=ex, tag=f"shrink{i}"))
    shr_results, _ = wait_all(shr, shrink_budget + 600) if shr else ([], [])
    for i, (clause, fl) in enumerate(todo):
        case, detail, shrunk = fl["case"], fl["detail"], False
        for r in shr_results:
            if r.get("shard") == i and r.get("mode") == "shrink" and r.get("still_fails"):
                case, detail, shrunk = r["case"], r["detail"], r.get("shrunk", False)
        path = common.write_replay(pid, clause, case, detail, seed, a.tier, shrunk)
        n_viol += 1
        lines.append(
            f"VIOLATION property={pid} replay={path} clause={clause} cases={fl['count']} detail={json.dumps(detail)[:300]}"
        )

    wall = time.time() - t0
    ev = dict(
        property_id=pid,
        tier=a.tier,
        seed=seed,
        level="exploration",
        coverage=dict(
            evaluations=merged["evaluations"],
            distinct_nontrivial=len(merged["nontrivial"]),
            rule=prop.RULE,
            samples=merged["samples"],
            classes=merged["classes"],
            counters=merged["counters"],
            clean_rejections=merged["rejected"],
            shards=nshards,
            shards_that_hit_time_budget=merged["budget_hit"],
            failing_clause_buckets=sorted(merged["failures"].keys()),
            known_findings_reported=n_known,
        ),
        assumptions=list(getattr(prop, "ASSUMPTIONS", [])),
        wall_s=round(wall, 2),
        violations=n_viol,
    )
    os.makedirs(os.path.join(common.HOME, "evidence"), exist_ok=True)
    with open(os.path.join(common.HOME, "evidence", f"{pid}.json"), "w") as f:
        json.dump(common.jsonable(ev), f, indent=1, sort_keys=True)

    for l in lines:
        print(l)
    print(
        f"[{pid}] tier={a.tier} seed={seed} evaluations={merged['evaluations']} "
        f"distinct_nontrivial={len(merged['nontrivial'])} violations={n_viol} known={n_known} wall={wall:.1f}s"
    )
    if errors:
        print("harness error(s):")
        for e in errors[:5]:
            print(e[-3000:])
        sys.exit(1 if n_viol else 2)
    if merged["evaluations"] == 0 or len(merged["nontrivial"]) < 2:
        print("harness error: nothing (non-trivial) was explored")
        sys.exit(1 if n_viol else 2)
    sys.exit(1 if n_viol else 0)


if __name__ == "__main__":
    main()
