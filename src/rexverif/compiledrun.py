"""Compiling computation graphs with rex.graph.Graph and driving them (always jitted) with probe nodes."""
import numpy as onp

MODES = ["MCS", "GENERATIONAL", "TOPOLOGICAL"]


def sg_mode(name):
    from rex.constants import Supergraph

    return {"MCS": Supergraph.MCS, "GENERATIONAL": Supergraph.GENERATIONAL, "TOPOLOGICAL": Supergraph.TOPOLOGICAL}[name]


def compile_graph(nodes, sup_name, cg, mode="MCS", prune=True, S_init=None, buffer_sizes=None, extra_padding=0):
    from rex.graph import Graph

    try:
        return _compile(Graph, nodes, sup_name, cg, mode, prune, S_init, buffer_sizes, extra_padding)
    except AssertionError as ex:
        # The documented rejection for a supervisor that depends on nothing ("There are no nodes in the partition")
        # surfaces as an assertion of the supergraph library in GENERATIONAL / TOPOLOGICAL mode, which evaluates the
        # supergraph before rex gets to its own check. Classify it by an own ancestor computation.
        if "No new nodes have been matched" in str(ex) and prune and not _supervisor_has_ancestors(nodes, sup_name, cg):
            raise ValueError("There are no nodes in the partition (excl. supervisor). [supergraph evaluation: nothing to match]") from ex
        raise


def _supervisor_has_ancestors(nodes, sup_name, cg):
    import jax
    import networkx as nx

    from rex import utils

    g = jax.tree_util.tree_map(lambda x: onp.asarray(x) if onp.asarray(x).ndim == 2 else onp.asarray(x)[None], cg)
    wg = utils.apply_window(nodes, g)
    graphs = wg.to_graph()
    for e in range(len(graphs)):
        G = utils.to_networkx_graph(graphs[e], nodes=nodes)
        for n, d in G.nodes(data=True):
            if d["kind"] == sup_name and any(G.nodes[a]["kind"] != sup_name for a in nx.ancestors(G, n)):
                return True
    return False


def _compile(Graph, nodes, sup_name, cg, mode, prune, S_init, buffer_sizes, extra_padding):
    return Graph(
        nodes=nodes,
        supervisor=nodes[sup_name],
        graphs_raw=cg,
        supergraph=sg_mode(mode),
        prune=prune,
        S_init=S_init,
        progress_bar=False,
        buffer_sizes=buffer_sizes,
        extra_padding=extra_padding,
    )


def init_like(graph, gs0, eps=0, step=0, rng=None):
    """graph.init + the initial per-node rng / params / state of another runtime's initial graph state (the only
    public way to start both runtimes from the same per-node initial values: their init() split keys differently)."""
    import jax

    gs = graph.init(rng if rng is not None else jax.random.PRNGKey(0), starting_eps=eps, starting_step=step)
    if gs0 is not None:
        gs = gs.replace(rng=gs0.rng, params=gs0.params, state=gs0.state)
    return gs


def schedule_of(graph):
    """Plain numpy view of Graph.timings: slot -> dict(kind, generation, run[e,p], seq[e,p], ts_start, ts_end, windows{src: seq[e,p,w], ts_sent, ts_recv})."""
    out = {}
    for sname, s in graph.timings.slots.items():
        out[sname] = dict(
            kind=s.kind,
            generation=int(s.generation),
            run=onp.asarray(s.run),
            seq=onp.asarray(s.seq),
            ts_start=onp.asarray(s.ts_start),
            ts_end=onp.asarray(s.ts_end),
            windows={k: dict(seq=onp.asarray(w.seq), ts_sent=onp.asarray(w.ts_sent), ts_recv=onp.asarray(w.ts_recv)) for k, w in s.windows.items()},
        )
    return out


def scheduled_vertices(graph, eps, n_partitions):
    """{(kind, seq)} the schedule runs in partitions 0..n_partitions-1 of episode eps (supervisor included)."""
    out = {}
    for sname, s in schedule_of(graph).items():
        for p in range(min(n_partitions, s["run"].shape[1])):
            if s["run"][eps, p]:
                out.setdefault((s["kind"], int(s["seq"][eps, p])), []).append((sname, p))
    return out
