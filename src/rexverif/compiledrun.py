"""Compiling computation graphs with rex.graph.Graph and driving them (always jitted) with probe nodes."""
import numpy as onp

MODES = ["MCS", "GENERATIONAL", "TOPOLOGICAL"]


def sg_mode(name):
    from rex.constants import Supergraph

    return {"MCS": Supergraph.MCS, "GENERATIONAL": Supergraph.GENERATIONAL, "TOPOLOGICAL": Supergraph.TOPOLOGICAL}[name]


def compile_graph(nodes, sup_name, cg, mode="MCS", prune=True, S_init=None, buffer_sizes=None, extra_padding=0):
    from rex.graph import Graph

    return Graph(
        nodes=nodes,
        supervisor=nodes[sup_name],
        graphs_raw=cg,
        supergraph=sg_mode(mode),
        prune=prune,
        S_init=S_init,
        progress_bar=False,
        buffer_sizes=buffer_sizes,
        extra_padding=extra_padding,
    )


def init_like(graph, gs0, eps=0, step=0, rng=None):
    """graph.init + the initial per-node rng / params / state of another runtime's initial graph state (the only
    public way to start both runtimes from the same per-node initial values: their init() split keys differently)."""
    import jax

    gs = graph.init(rng if rng is not None else jax.random.PRNGKey(0), starting_eps=eps, starting_step=step)
    if gs0 is not None:
        gs = gs.replace(rng=gs0.rng, params=gs0.params, state=gs0.state)
    return gs


def schedule_of(graph):
    """Plain numpy view of Graph.timings: slot -> dict(kind, generation, run[e,p], seq[e,p], ts_start, ts_end, windows{src: seq[e,p,w], ts_sent, ts_recv})."""
    out = {}
    for sname, s in graph.timings.slots.items():
        out[sname] = dict(
            kind=s.kind,
            generation=int(s.generation),
            run=onp.asarray(s.run),
            seq=onp.asarray(s.seq),
            ts_start=onp.asarray(s.ts_start),
            ts_end=onp.asarray(s.ts_end),
            windows={k: dict(seq=onp.asarray(w.seq), ts_sent=onp.asarray(w.ts_sent), ts_recv=onp.asarray(w.ts_recv)) for k, w in s.windows.items()},
        )
    return out


def scheduled_vertices(graph, eps, n_partitions):
    """{(kind, seq)} the schedule runs in partitions 0..n_partitions-1 of episode eps (supervisor included)."""
    out = {}
    for sname, s in schedule_of(graph).items():
        for p in range(min(n_partitions, s["run"].shape[1])):
            if s["run"][eps, p]:
                out.setdefault((s["kind"], int(s["seq"][eps, p])), []).append((sname, p))
    return out
