"""C05 — graph lifecycle calls always return and episodes are isolated."""
import threading
import time

import numpy as onp
from hypothesis import strategies as st

from rexverif import asynccase, sysgen
from rexverif.asyncrun import AsyncRun, Hang, _progress_snapshot
from rexverif.common import CaseResult

ID = "C05"
TIERS = {
    "quick": dict(examples=48, shards=16, timeout_s=2400, shrink_s=180),
    "thorough": dict(examples=480, shards=16, timeout_s=10800, shrink_s=300),
}
RULE = (
    "Hypothesis draws a node system from the supported class (DESIGN §2.1), a clock (simulated; wall clock on ~25%, ending with one episode whose startup() takes 2 s), a "
    "history of 2-4 episodes of the forms reset step* stop / run+ stop / reset (re-)started without stop / stop twice, with "
    "a user-thread delay of 0-30 ms before every call, and 1-2 gate scenarios: a chosen thread (supervisor at sync.enter / "
    "sync.before_wait, a node thread or a connection thread at one of its task starts) is parked through the REX_VERIF gate "
    "points while the user issues stop / reset / stop-then-run, and is released once that call has passed stop.after_cancel "
    "(or after 150 ms). Oracle: every lifecycle call returns (watchdog with quiescence test: slow is not hung); every episode "
    "record starts at seq 0 with non-negative times on every node, messages from seq_out 0, the graph's episode counter "
    "advances by one, and no window entry carries a payload produced in another episode (probe payloads carry their episode). "
    "Non-trivial = >= 2 episodes, and a stop was issued while node threads were demonstrably progressing or a gate scenario "
    "parked a thread; distinct = hash of the case."
)
ASSUMPTIONS = [
    "supported class: look-ahead demand <= 8 of the 10 tokens; every cycle has a skipped edge; advance nodes on a cycle have a positive computation delay (DESIGN §2.1)",
    "liveness is observed up to a watchdog (20-30 s budget + 2 s quiescence of all per-node counters)",
    "one user thread; run() directly after reset()/step() without the matching protocol is a user error and not generated",
]

GATES = ["sync.enter", "sync.before_wait", "task.start:node", "task.start:conn"]


@st.composite
def _case(draw, tier):
    spec = draw(sysgen.system_spec(max_eps=1, min_steps=3, max_steps=6, max_nodes=4))
    spec["carry"] = draw(st.booleans())
    wall = draw(st.sampled_from([False] * 3 + [True]))
    eps = []
    for _ in range(draw(st.integers(2, 4))):
        kind = draw(st.sampled_from(["run", "step", "step"]))
        eps.append(dict(kind=kind, n=draw(st.integers(0 if kind == "step" else 1, 4 if wall else 6)), delays=[draw(st.sampled_from([0, 0, 1, 3, 10, 30])) for _ in range(8)],
                        end=draw(st.sampled_from(["stop", "stop", "stop_twice", "restart_without_stop"]))))
    owners_n = [n["name"] for n in spec["nodes"]]
    owners_c = [f"{c['dst']}/{c['src']}" for c in spec["conns"]]
    scen = []
    for _ in range(draw(st.integers(1, 2))):
        g = draw(st.sampled_from(GATES))
        scen.append(dict(gate=g, owner=draw(st.sampled_from(owners_c if g.endswith("conn") else owners_n)), after=draw(st.integers(1, 3)), nth=draw(st.integers(0, 6)),
                         follow=draw(st.sampled_from(["stop", "stop", "reset", "stop_run"]))))
    storm = [draw(st.sampled_from([0, 0, 20, 50, 100, 200, 500, 1000, 3000])) for _ in range(draw(st.integers(6, 14)))]  # microseconds between run()/step() and stop()
    return dict(spec=spec, clock="WALL_CLOCK" if wall else "SIMULATED", episodes=eps, scenarios=scen, storm=storm)


def strategy(tier):
    return _case(tier)


class Gate:
    """Passive until armed; then parks the first thread that reaches (point, owner) at hit index >= target."""

    def __init__(self):
        self.lock = threading.Lock()
        self.counts = {}
        self.armed = None
        self.parked = threading.Event()
        self.release = threading.Event()
        self.hits = 0
        self.passed_cancel = threading.Event()

    def arm(self, point, owner, extra_hits):
        with self.lock:
            self.parked.clear()
            self.release.clear()
            self.passed_cancel.clear()
            self.armed = dict(point=point, owner=owner, target=self.counts.get((point, owner), 0) + extra_hits, done=False)

    def disarm(self):
        with self.lock:
            self.armed = None
        self.release.set()

    def __call__(self, point, owner=None, fn=None, **kw):
        self.hits += 1
        if point == "stop.after_cancel":
            self.passed_cancel.set()
            self.release.set()
            return
        park = False
        with self.lock:
            c = self.counts.get((point, owner), 0)
            self.counts[(point, owner)] = c + 1
            a = self.armed
            if a is not None and not a["done"] and a["point"] == point and a["owner"] == owner and c >= a["target"]:
                a["done"] = True
                park = True
        if park:
            self.parked.set()
            self.release.wait(5.0)  # never block the code under test for ever


def _check_record(res, rec, e, prev_eps, sup, n_user_steps, tag, wall_slack=None):
    """isolation clauses on the record of the e-th episode; returns the graph's episode counter of this record."""
    counter = None
    for name, nr in rec.nodes.items():
        st_ = nr.steps
        seq = onp.atleast_1d(st_.seq)
        if len(seq) == 0:
            continue
        if not onp.array_equal(seq, onp.arange(len(seq))):
            res.fail("C05.episode_does_not_start_at_seq_0", dict(node=name, seq=seq.tolist()[:8], episode=e, after=tag))
            return None
        if (onp.atleast_1d(st_.ts_start) < 0).any():
            res.fail("C05.negative_time_in_new_episode", dict(node=name, episode=e))
            return None
        epsv = set(onp.atleast_1d(st_.eps).tolist())
        if len(epsv) != 1:
            res.fail("C05.episode_counter_not_constant_within_record", dict(node=name, eps=sorted(epsv)))
            return None
        counter = epsv.pop() if counter is None else counter
        first_sched = float(onp.atleast_1d(st_.ts_scheduled)[0])
        if first_sched > 1e3:
            res.fail("C05.first_step_not_near_time_0", dict(node=name, ts_scheduled=first_sched))
            return None
        if wall_slack is not None and not nr.inputs:
            # wall clock: the end of a source node's first step is *measured*; it lies a scheduling latency after its
            # (computed) start - never the whole duration of the nodes' startup() routines (2 s here) later
            first_start, first_end = float(onp.atleast_1d(st_.ts_start)[0]), float(onp.atleast_1d(st_.ts_end)[0])
            if first_end - first_start > wall_slack:
                res.fail("C05.episode_clock_does_not_start_at_0", dict(node=name, first_start=first_start, first_end=first_end, slack=wall_slack))
                return None
        if st_.inputs is not None:
            for in_name, w in st_.inputs.items():
                a = onp.asarray(w.data.a)
                sq = onp.asarray(w.seq)
                bad = (sq >= 0) & (a[..., 3] != e)
                if bad.any():
                    k = int(onp.argmax(bad.any(axis=1)))
                    res.fail("C05.message_from_another_episode_in_window", dict(node=name, input=in_name, step=k, payload=a[k].tolist(), episode=e, after=tag))
                    return None
                default_bad = (sq < 0) & (a[..., 1] != -1)
                if default_bad.any():
                    res.fail("C05.default_window_entry_carries_old_payload", dict(node=name, input=in_name, episode=e))
                    return None
        for src, ir in nr.inputs.items():
            so = onp.atleast_1d(ir.messages.seq_out)
            if len(so) and not onp.array_equal(so, onp.arange(len(so))):
                res.fail("C05.messages_do_not_start_at_seq_out_0", dict(conn=[src, name], seq_out=so.tolist()[:8], episode=e))
                return None
            if len(so) and (onp.atleast_1d(ir.messages.ts_sent) < -1e-9).any():
                res.fail("C05.negative_send_time", dict(conn=[src, name], episode=e))
                return None
    if counter is not None and prev_eps is not None and counter != prev_eps + 1:
        res.fail("C05.episode_counter_did_not_advance_by_one", dict(prev=prev_eps, now=counter, episode=e, after=tag))
        return None
    return counter


HOOK_HITS = [0]


def check(case) -> CaseResult:
    import rex.asynchronous as ra

    res = CaseResult()
    spec = case["spec"]
    res.label("cls_" + spec["cls"], "clock_" + case["clock"])
    if asynccase.CONTAMINATED[0]:
        res.rejected = "skipped: an earlier case of this worker hung"
        return res
    gate = Gate()
    ra._verif_hook = gate
    run = None
    label = "build"
    active_stop = gated = False
    try:
        run = AsyncRun(spec, clock=case["clock"])
        g = run.graph
        slow_startup = 0.0
        budget = 25.0 if case["clock"] == "SIMULATED" else 45.0
        e = 0
        prev_counter = None
        running = False  # an episode is open (not stopped)

        def nap(ms):
            if ms:
                time.sleep(ms / 1000.0)

        def record_and_check(tag, n_user):
            nonlocal prev_counter
            try:
                rec = run.call("get_record", lambda: __import__("rexverif.asyncrun", fromlist=["to_np"]).to_np(g.get_record()), budget_s=budget)
            except TypeError as ex:
                if "tree_map() missing 1 required positional argument" in str(ex):
                    res.label("record_unavailable_empty_node")
                    prev_counter = None
                    return True
                raise
            c = _check_record(res, rec, e, prev_counter, spec["supervisor"], n_user, tag, wall_slack=slow_startup if slow_startup else None)
            if c is None and res.failures:
                return False
            if case["clock"] == "SIMULATED":
                # "starts from time 0": the start-time law with zero initial drift must hold in *every* episode of the history
                from rexverif import refmodel

                n_before = len(res.failures)
                refmodel.check_timing_law(rec, refmodel.config_of(run.nodes), spec, res, prefix="C05.later_episode_")
                if len(res.failures) > n_before:
                    res.failures[-1][1]["episode"] = e
                    return False
            prev_counter = c
            return True

        for ep in case["episodes"]:
            d = iter(ep["delays"] * 4)
            gs = run.start_state(e)
            label = f"episode{e}:{ep['kind']}"
            if ep["kind"] == "run":
                for i in range(ep["n"]):
                    nap(next(d))
                    gs = run.call(f"{label}:run#{i}", g.run, gs, budget_s=budget)
                    run.last_gs = gs
                    if i == 0:
                        ss = gs.step_state[spec["supervisor"]]
                        if int(ss.seq) != 1:
                            res.fail("C05.first_run_of_episode_not_at_seq_0", dict(seq_after=int(ss.seq), episode=e))
                            return res
            else:
                nap(next(d))
                gs, ss = run.call(f"{label}:reset", g.reset, gs, budget_s=budget)
                if int(ss.seq) != 0 or float(ss.ts) < 0:
                    res.fail("C05.reset_does_not_return_seq_0", dict(seq=int(ss.seq), ts=float(ss.ts), episode=e))
                    return res
                for i in range(ep["n"]):
                    nap(next(d))
                    gs, ss = run.call(f"{label}:step#{i}", g.step, gs, budget_s=budget)
                    run.last_gs = gs
            running = True
            dl = next(d)
            nap(dl)
            if ep["end"] in ("stop", "stop_twice"):
                s1 = _progress_snapshot(g)
                time.sleep(0.003)
                if _progress_snapshot(g) != s1:
                    active_stop = True
                run.call(f"{label}:stop", g.stop, budget_s=budget)
                if ep["end"] == "stop_twice":
                    nap(next(d))
                    run.call(f"{label}:stop_again", g.stop, budget_s=budget)
                running = False
                if not record_and_check(label, ep["n"]):
                    return res
            else:
                res.label("restart_without_stop")
                # the next reset()/run() must stop the running episode itself; its record is checked after the final stop
                if case["episodes"].index(ep) + 1 < len(case["episodes"]) and case["episodes"][case["episodes"].index(ep) + 1]["kind"] == "run":
                    run.call(f"{label}:stop", g.stop, budget_s=budget)  # run() after an open episode would continue it: close it (protocol)
                    running = False
                    if not record_and_check(label, ep["n"]):
                        return res
                else:
                    prev_counter = None if prev_counter is None else prev_counter + 1
            e += 1
        if running:
            run.call("final:stop", g.stop, budget_s=budget)
            running = False
            prev_counter = None
        # ---------------- gate scenarios
        for sc in case["scenarios"]:
            label = f"gate:{sc['gate']}@{sc['owner']}:{sc['follow']}"
            point = sc["gate"].split(":")[0]
            owner = spec["supervisor"] if point.startswith("sync") else sc["owner"]
            gs = run.start_state(e)
            gs = run.call(f"{label}:run#0", g.run, gs, budget_s=budget)
            for i in range(1, sc["after"]):
                gs = run.call(f"{label}:run#{i}", g.run, gs, budget_s=budget)
            # arm before the last run(): the supervisor's next entry can only happen after that action was set
            gate.arm(point, owner, 0 if point.startswith("sync") else sc["nth"])
            gs = run.call(f"{label}:run#last", g.run, gs, budget_s=budget)
            run.last_gs = gs
            parked = gate.parked.wait(1.0)
            if parked:
                gated = True
                res.label("parked:" + sc["gate"])
            rel = threading.Timer(0.15, gate.release.set)  # release at stop.after_cancel, or after 150 ms
            rel.start()
            try:
                if sc["follow"] in ("stop", "stop_run"):
                    run.call(f"{label}:stop", g.stop, budget_s=budget)
                    if not record_and_check(label, sc["after"] + 1):
                        return res
                    e += 1
                    if sc["follow"] == "stop_run":
                        gs2 = run.start_state(e)
                        for i in range(2):
                            gs2 = run.call(f"{label}:newrun#{i}", g.run, gs2, budget_s=budget)
                        run.call(f"{label}:stop2", g.stop, budget_s=budget)
                        if not record_and_check(label + ":new", 2):
                            return res
                        e += 1
                else:
                    e += 1
                    prev_counter = None if prev_counter is None else prev_counter + 1
                    gs2, ss2 = run.call(f"{label}:reset", g.reset, run.start_state(e), budget_s=budget)
                    if int(ss2.seq) != 0:
                        res.fail("C05.reset_does_not_return_seq_0", dict(seq=int(ss2.seq), after=label))
                        return res
                    gs2, ss2 = run.call(f"{label}:step", g.step, gs2, budget_s=budget)
                    run.call(f"{label}:stop2", g.stop, budget_s=budget)
                    if not record_and_check(label + ":new", 1):
                        return res
                    e += 1
            finally:
                rel.cancel()
                gate.disarm()
        # ---------------- stop storm: stop() directly after run()/step(), at drawn microsecond offsets, many short episodes
        for k, us in enumerate(case.get("storm", [])):
            label = f"storm#{k}:{us}us"
            gs = run.start_state(e)
            if k % 2 == 0:
                gs = run.call(f"{label}:run", g.run, gs, budget_s=budget)
            else:
                gs, _ss = run.call(f"{label}:reset", g.reset, gs, budget_s=budget)
                gs, _ss = run.call(f"{label}:step", g.step, gs, budget_s=budget)
            if us:
                t_end = time.perf_counter() + us * 1e-6
                while time.perf_counter() < t_end:
                    pass
            run.call(f"{label}:stop", g.stop, budget_s=budget)
            e += 1
        if case.get("storm"):
            prev_counter = None
            res.count("storm_stops", len(case["storm"]))
        # ---------------- wall clock: a slow user startup() must not eat episode time (one dedicated episode)
        if case["clock"] == "WALL_CLOCK":
            slow_startup = 2.0
            list(run.nodes.values())[-1].startup_sleep = slow_startup
            res.label("slow_startup_episode")
            label = "slow_startup"
            try:
                gs = run.start_state(e)
                gs = run.call(f"{label}:run", g.run, gs, budget_s=budget)
                run.call(f"{label}:stop", g.stop, budget_s=budget)
                prev_counter = None
                if not record_and_check(label, 1):
                    return res
                e += 1
            finally:
                list(run.nodes.values())[-1].startup_sleep = 0.0
        res.nontrivial = e >= 2 and (active_stop or gated)
        if active_stop:
            res.label("stop_while_threads_progressing")
    except Hang as h:
        asynccase.CONTAMINATED[0] = True
        res.fail("C05.lifecycle_call_does_not_return", dict(call=h.call.split("#")[0], where=label, clock=case["clock"], livelock=bool((h.info or {}).get("livelock")),
                                                        snapshot=(h.info or {}).get("snapshot", [])[:12]))
    except (ValueError, NotImplementedError) as ex:
        if "advance=True" in str(ex):
            res.rejected = "advance without blocking inputs (documented rejection)"
        else:
            raise
    finally:
        gate.disarm()
        HOOK_HITS[0] += gate.hits
        res.count("hook_hits", gate.hits)
        ra._verif_hook = None
        if run is not None:
            run.close()
    return res


def extra(tier, seed, shard, nshards, col):
    if col.evaluations > 2 and HOOK_HITS[0] == 0 and not col.failures:
        col.errors.append("REX_VERIF gate points were never hit: rex/asynchronous.py lost its hooks or REX_VERIF is not set")


def regressions():
    """fixed in 90b519d: stop() never returned when it ran while the supervisor thread sat at the entry of
    _Synchronizer._async_step (gate sync.enter, follow-up stop)."""
    det = lambda c: {"k": "det", "c": c}
    spec = dict(
        nodes=[dict(name="n0", rate=20, delay=det(0.005), exp_delay=None, advance=False, scheduling="FREQUENCY"),
               dict(name="n1", rate=10, delay=det(0.005), exp_delay=None, advance=False, scheduling="FREQUENCY")],
        conns=[dict(src="n0", dst="n1", blocking=False, skip=False, jitter="LATEST", window=1, delay=det(0.005), exp_delay=None),
               dict(src="n1", dst="n0", blocking=False, skip=True, jitter="LATEST", window=1, delay=det(0.005), exp_delay=None)],
        supervisor="n1", seed=0, episodes=[4], jit={"n0": False, "n1": False}, cls="light", carry=False)
    eps = [dict(kind="run", n=2, delays=[0] * 8, end="stop"), dict(kind="step", n=2, delays=[0] * 8, end="stop")]
    return [dict(spec=spec, clock="SIMULATED", episodes=eps, scenarios=[dict(gate=g, owner="n1", after=2, nth=0, follow=f)])
            for g, f in (("sync.enter", "stop"), ("sync.enter", "reset"), ("sync.before_wait", "stop_run"))]
