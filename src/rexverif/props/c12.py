"""C12 — generated and augmented graphs are well-formed and match the node configuration."""
import numpy as onp
from hypothesis import strategies as st

from rexverif import refmodel, sysgen
from rexverif.common import CaseResult

ID = "C12"
TIERS = {
    "quick": dict(examples=128, shards=16, timeout_s=2400, shrink_s=180),
    "thorough": dict(examples=1500, shards=16, timeout_s=10800, shrink_s=300),
}
RULE = (
    "Hypothesis draws a node set supported by generate_graphs (non-blocking LATEST connections, FREQUENCY scheduling; 2-5 "
    "nodes, rates with ratio <= 5, forward + skipped back connections, windows, delay class light/heavy/tie/zero with "
    "deterministic, normal, mixture and trainable distributions), a horizon, 1-3 episodes and a seed; for augmentation a "
    "subset of the nodes is generated first and then augmented with the full node set. Oracle: validity predicate on the "
    "returned rex.base.Graph recomputed from its own float32 values: acyclic; first start == phase; next start == max(end, "
    "start + 1/rate); ends one non-negative delay after start (exact for deterministic); nothing with seq >= 0 ends after the "
    "horizon; receive time = sender end + non-negative delay (exact for deterministic / min for trainable), FIFO; each message "
    "assigned to the first receiver step starting at/after (strictly after for skip) its arrival; augmentation keeps every "
    "existing array bit-identical and adds exactly the missing nodes and connections. Non-trivial = >= 2 nodes, >= 20 messages "
    "and (a stochastic delay or a tie arrival == start); distinct = hash of the case."
)
ASSUMPTIONS = [
    "blocking / BUFFER / PHASE / advance raise NotImplementedError in generate_graphs (documented) and are not generated",
    "float32 results are compared with 2 ulp tolerance where the oracle recomputes sums",
]


@st.composite
def _case(draw, tier):
    spec = draw(sysgen.system_spec(allow_blocking=False, allow_advance=False, allow_buffer=False, allow_phase=False, max_eps=1))
    # some connections become trainable (range in sender periods)
    for c in spec["conns"]:
        if draw(st.integers(0, 4)) == 0:
            period = 1.0 / next(n["rate"] for n in spec["nodes"] if n["name"] == c["src"])
            lo = round(draw(st.integers(0, 100)) / 100.0 * period, 4)
            hi = round(lo + draw(st.integers(10, 300)) / 100.0 * period, 4)
            d = round(lo + draw(st.integers(0, 100)) / 100.0 * (hi - lo), 5)
            c["delay"] = {"k": "train", "min": lo, "max": hi, "d": d, "interp": "zoh"}
            c["exp_delay"] = None
    n_keep = draw(st.integers(1, len(spec["nodes"])))
    return dict(
        spec=spec,
        ts_max=draw(st.integers(3, 30)) / 10.0,
        num_episodes=draw(st.integers(1, 3)),
        seed=draw(st.integers(0, 2**31 - 1)),
        augment=draw(st.booleans()),
        keep=n_keep,
        seed2=draw(st.integers(0, 2**31 - 1)),
    )


def strategy(tier):
    return _case(tier)


def _f32(x):
    return onp.float32(x)


def validate_graph(G, nodes, spec, ts_max, res, only_nodes=None, only_edges=None, prefix="C12."):
    """G: rex.base.Graph with leading episode axis (numpy). only_*: restrict the predicate to new parts (augmentation)."""
    import networkx as nx

    cfg = refmodel.config_of(nodes)
    nspec = {n["name"]: n for n in spec["nodes"]}
    cspec = {(c["src"], c["dst"]): c for c in spec["conns"]}
    E = next(iter(G.vertices.values())).seq.shape[0]
    stats = dict(messages=0, ties=0)
    for e in range(E):
        tmax_e = ts_max[e] if hasattr(ts_max, "__len__") else ts_max
        for name, v in G.vertices.items():
            if only_nodes is not None and name not in only_nodes:
                continue
            seq, ts, te = onp.asarray(v.seq[e]), onp.asarray(v.ts_start[e]), onp.asarray(v.ts_end[e])
            K = len(seq)
            rate = cfg[name]["rate"]
            valid = seq >= 0
            nv = int(valid.sum())
            if not onp.array_equal(seq[:nv], onp.arange(nv)) or (seq[nv:] != -1).any():
                res.fail(prefix + "vertex_seq_not_a_gap_free_prefix", dict(node=name, eps=e, seq=seq.tolist()[:20]))
                return None
            if K and abs(float(ts[0]) - float(_f32(cfg[name]["phase"]))) > 2e-6:
                res.fail(prefix + "first_start_is_not_phase", dict(node=name, eps=e, start=float(ts[0]), phase=cfg[name]["phase"]))
                return None
            det = refmodel.det_value(nspec[name]["delay"])
            for k in range(K):
                d = float(te[k]) - float(ts[k])
                if d < -1e-7:
                    res.fail(prefix + "negative_computation_delay", dict(node=name, eps=e, k=k, delay=d))
                    return None
                if det is not None and abs(float(te[k]) - float(_f32(ts[k]) + _f32(det))) > 2e-6 * max(1.0, abs(float(te[k]))):
                    res.fail(prefix + "deterministic_computation_delay", dict(node=name, eps=e, k=k, got=d, want=det))
                    return None
                if k + 1 < K:
                    want = max(float(te[k]), float(_f32(ts[k]) + _f32(1.0 / rate)))
                    if abs(float(ts[k + 1]) - want) > 2e-6 * max(1.0, abs(want)):
                        res.fail(prefix + "next_start_is_not_max_of_end_and_period", dict(node=name, eps=e, k=k, got=float(ts[k + 1]), want=want, end=float(te[k]), start=float(ts[k]), rate=rate))
                        return None
                if seq[k] >= 0 and float(te[k]) > tmax_e + 1e-6:
                    res.fail(prefix + "vertex_ends_after_horizon", dict(node=name, eps=e, k=k, ts_end=float(te[k]), ts_max=tmax_e))
                    return None
                if seq[k] < 0 and k < K and float(te[k]) <= tmax_e - 1e-6 and only_nodes is None:
                    res.fail(prefix + "vertex_inside_horizon_masked", dict(node=name, eps=e, k=k, ts_end=float(te[k]), ts_max=tmax_e))
                    return None
        for (src, dst), ed in G.edges.items():
            if only_edges is not None and (src, dst) not in only_edges:
                continue
            c = cspec[(src, dst)]
            so, si, tr = onp.asarray(ed.seq_out[e]), onp.asarray(ed.seq_in[e]), onp.asarray(ed.ts_recv[e])
            vs, vd = G.vertices[src], G.vertices[dst]
            s_end, s_seq = onp.asarray(vs.ts_end[e]), onp.asarray(vs.seq[e])
            d_start, d_seq = onp.asarray(vd.ts_start[e]), onp.asarray(vd.seq[e])
            det = refmodel.det_value(c["delay"]) if c["delay"]["k"] != "train" else float(_f32(c["delay"]["min"]))
            prev = -onp.inf
            for i in range(len(so)):
                if so[i] < 0:
                    if si[i] != -1:
                        res.fail(prefix + "unsent_message_assigned", dict(conn=[src, dst], eps=e, i=i, seq_in=int(si[i])))
                        return None
                    continue
                if so[i] != i or s_seq[i] < 0:
                    res.fail(prefix + "message_seq_out", dict(conn=[src, dst], eps=e, i=i, seq_out=int(so[i]), sender_seq=int(s_seq[i])))
                    return None
                stats["messages"] += 1
                delay = float(tr[i]) - float(s_end[i])
                if delay < -2e-6:
                    res.fail(prefix + "received_before_sender_finished", dict(conn=[src, dst], eps=e, i=i, delay=delay))
                    return None
                if float(tr[i]) < prev - 1e-9:
                    res.fail(prefix + "receive_times_not_fifo", dict(conn=[src, dst], eps=e, i=i, recv=float(tr[i]), prev=prev))
                    return None
                if det is not None:
                    want = max(float(_f32(s_end[i]) + _f32(det)), prev if prev > -onp.inf else -onp.inf)
                    if abs(float(tr[i]) - want) > 2e-6 * max(1.0, abs(want)):
                        res.fail(prefix + "deterministic_communication_delay", dict(conn=[src, dst], eps=e, i=i, got=delay, want=det, kind=c["delay"]["k"]))
                        return None
                prev = float(tr[i])
                # first receiver step starting at/after (strictly after for skip) the arrival
                a = tr[i]
                want = -1
                for k in range(len(d_start)):
                    if (d_start[k] > a) if c["skip"] else (d_start[k] >= a):
                        want = k
                        break
                if want >= 0 and d_seq[want] < 0:
                    want = -1  # the first eligible step lies beyond the horizon
                if any(d_start[k] == a for k in range(len(d_start))):
                    stats["ties"] += 1
                if int(si[i]) != want:
                    res.fail(prefix + "message_not_assigned_to_first_step_after_arrival", dict(conn=[src, dst], eps=e, i=i, seq_in=int(si[i]), want=want, recv=float(a), skip=c["skip"]))
                    return None
        # acyclic (stateful edges + message edges)
        Gx = nx.DiGraph()
        for name, v in G.vertices.items():
            for k in range(len(v.seq[e])):
                if v.seq[e][k] >= 0:
                    Gx.add_node((name, k))
                    if k > 0:
                        Gx.add_edge((name, k - 1), (name, k))
        for (src, dst), ed in G.edges.items():
            for i in range(len(ed.seq_out[e])):
                if ed.seq_out[e][i] >= 0 and ed.seq_in[e][i] >= 0:
                    Gx.add_edge((src, int(ed.seq_out[e][i])), (dst, int(ed.seq_in[e][i])))
        if not nx.is_directed_acyclic_graph(Gx):
            res.fail(prefix + "graph_has_a_cycle", dict(eps=e, cycle=[list(map(str, x)) for x in nx.find_cycle(Gx)][:6]))
            return None
    return stats


def check(case) -> CaseResult:
    import jax

    from rex.artificial import augment_graphs, generate_graphs

    res = CaseResult()
    spec = case["spec"]
    res.label("cls_" + spec["cls"])
    nodes = sysgen.build_nodes(spec)
    key = jax.random.PRNGKey(case["seed"])
    stats = None
    if not case["augment"]:
        G = jax.tree_util.tree_map(onp.asarray, generate_graphs(nodes, ts_max=case["ts_max"], rng=key, num_episodes=case["num_episodes"]))
        if set(G.vertices) != set(nodes) or set(G.edges) != {(c["src"], c["dst"]) for c in spec["conns"]}:
            res.fail("C12.generated_node_or_connection_set", dict(vertices=sorted(G.vertices), edges=sorted(map(list, G.edges))))
            return res
        E = next(iter(G.vertices.values())).seq.shape[0]
        if E != case["num_episodes"]:
            res.fail("C12.number_of_episodes", dict(got=E, want=case["num_episodes"]))
            return res
        stats = validate_graph(G, nodes, spec, case["ts_max"], res)
    else:
        res.label("augment")
        keep = [n["name"] for n in spec["nodes"]][: case["keep"]]
        small = dict(spec, nodes=[n for n in spec["nodes"] if n["name"] in keep], conns=[c for c in spec["conns"] if c["src"] in keep and c["dst"] in keep])
        nodes_small = sysgen.build_nodes(small)
        G0 = generate_graphs(nodes_small, ts_max=case["ts_max"], rng=key, num_episodes=case["num_episodes"])
        G0n = jax.tree_util.tree_map(onp.asarray, G0)
        # phases of the small system may differ from the full one (extra inputs): the existing part is kept as it is
        G1 = jax.tree_util.tree_map(onp.asarray, augment_graphs(G0, nodes, rng=jax.random.PRNGKey(case["seed2"])))
        if set(G1.vertices) != set(nodes) or set(G1.edges) != {(c["src"], c["dst"]) for c in spec["conns"]}:
            res.fail("C12.augmented_node_or_connection_set", dict(vertices=sorted(G1.vertices), edges=sorted(map(list, G1.edges)), want_edges=sorted([c["src"], c["dst"]] for c in spec["conns"])))
            return res
        for name, v in G0n.vertices.items():
            for f in ("seq", "ts_start", "ts_end"):
                if not onp.array_equal(getattr(v, f), getattr(G1.vertices[name], f)):
                    res.fail("C12.augment_changed_existing_vertex", dict(node=name, field=f))
                    return res
        for key_, ed in G0n.edges.items():
            for f in ("seq_out", "seq_in", "ts_recv"):
                if not onp.array_equal(getattr(ed, f), getattr(G1.edges[key_], f)):
                    res.fail("C12.augment_changed_existing_edge", dict(conn=list(key_), field=f))
                    return res
        new_nodes = set(nodes) - set(keep)
        new_edges = set(G1.edges) - set(G0n.edges)
        ts_max_aug = onp.zeros(case["num_episodes"])
        for v in G0n.vertices.values():
            ts_max_aug = onp.maximum(ts_max_aug, v.ts_end.max(axis=1))
        stats = validate_graph(G1, nodes, spec, ts_max_aug, res, only_nodes=new_nodes, only_edges=new_edges)
        if new_nodes:
            res.label("augment_adds_nodes")
        if new_edges:
            res.label("augment_adds_edges")
    if stats is not None:
        res.count("messages", stats["messages"])
        stochastic = any(n["delay"]["k"] in ("normal", "mix") for n in spec["nodes"]) or any(c["delay"]["k"] in ("normal", "mix") for c in spec["conns"])
        if stats["ties"]:
            res.label("tie_arrival_equals_start")
        if any(c["delay"]["k"] == "train" for c in spec["conns"]):
            res.label("has_trainable")
        res.nontrivial = len(spec["nodes"]) >= 2 and stats["messages"] >= 20 and (stochastic or stats["ties"] > 0)
    return res


def regressions():
    """fixed in d87605f: Normal(0.05, 0.05) communication delay at 25 Hz gave out-of-order ts_recv."""
    det = lambda c: {"k": "det", "c": c}
    spec = dict(
        nodes=[dict(name="n0", rate=25, delay=det(0.005), exp_delay=None, advance=False, scheduling="FREQUENCY"),
               dict(name="n1", rate=20, delay=det(0.005), exp_delay=None, advance=False, scheduling="FREQUENCY")],
        conns=[dict(src="n0", dst="n1", blocking=False, skip=False, jitter="LATEST", window=1, delay={"k": "normal", "mu": 0.05, "sigma": 0.05}, exp_delay=None)],
        supervisor="n1", seed=0, episodes=[5], jit={}, cls="heavy", carry=False,
    )
    return [dict(spec=spec, ts_max=3.0, num_episodes=2, seed=1, augment=False, keep=1, seed2=0)]
