"""C06 — every scheduled step executes the user's step function exactly once (both runtimes)."""
import functools

import numpy as onp
from hypothesis import strategies as st

from rexverif import asynccase, compiledrun, sysgen
from rexverif.asyncrun import AsyncRun, Hang
from rexverif.common import CaseResult

ID = "C06"
TIERS = {
    "quick": dict(examples=48, shards=16, timeout_s=2400, shrink_s=180),
    "thorough": dict(examples=320, shards=16, timeout_s=10800, shrink_s=300),
}
RULE = (
    "Hypothesis draws a node system (as C01), per-node jit on/off, the threaded driving API (run / reset+step / step with a "
    "fabricated supervisor output every other step) and for the compiled runtime a supergraph mode, prune, and a driving API "
    "(jit rollout / eager run loop / jit reset+step with overridden supervisor steps). Probe nodes append to a host-side list "
    "from inside step (plain side effect when un-jitted, jax.debug.callback when jitted). Oracle: executions per (node, "
    "episode, seq) == 1 for every recorded tick (threaded) and every vertex the schedule marks run inside the driven horizon "
    "(compiled); == 0 for overridden supervisor ticks, for the trailing supervisor row that stop() interrupted, and for "
    "anything the schedule masks. Non-trivial = >= 10 ticks counted on >= 2 nodes; distinct = hash of the drawn case."
)
ASSUMPTIONS = [
    "the trailing supervisor record row after stop() (empty output) counts as not executed",
    "compiled runs are never vmapped (the property excludes them)",
    "supported class of DESIGN §2.1; hangs are counted and left to C05",
]


@st.composite
def _case(draw, tier):
    spec = draw(sysgen.system_spec(max_eps=2, min_steps=3, max_steps=8))
    return dict(
        spec=spec,
        amode=draw(st.sampled_from(["run", "step", "override"])),
        mode=draw(st.sampled_from(compiledrun.MODES)),
        prune=draw(st.booleans()),
        cmode=draw(st.sampled_from(["rollout", "rollout", "eager_run", "step_override"])),
    )


def strategy(tier):
    return _case(tier)


def _fabricate(sup):
    from rexverif.probes import POut
    import jax.numpy as jnp

    def ov(i, ss):
        if i % 2 == 1:
            return ss, POut(a=jnp.array([sup.nid, -7, 4242, 0], dtype=jnp.int32))
        return None

    return ov


def check(case) -> CaseResult:
    import jax

    from rex.base import ExperimentRecord

    res = CaseResult()
    spec = case["spec"]
    res.label("cls_" + spec["cls"], "amode_" + case["amode"], "cmode_" + case["cmode"], "mode_" + case["mode"])
    if asynccase.CONTAMINATED[0]:
        res.rejected = "skipped: an earlier case of this worker hung"
        return res
    run = None
    n_counted, nodes_counted = 0, set()
    try:
        run = AsyncRun(spec)
        sup = spec["supervisor"]
        recs = []
        for e, n in enumerate(spec["episodes"]):
            gs = run.start_state(e)
            overridden = set()
            if case["amode"] == "run":
                _, rec = run.episode_run(gs, n, budget_s=30.0)
            else:
                ov = _fabricate(run.sup) if case["amode"] == "override" else None
                if ov is not None:
                    overridden = {i for i in range(n) if i % 2 == 1}
                _, rec = run.episode_step(gs, n, override=ov, budget_s=30.0)
            recs.append(rec)
            A = run.trace.by_key()
            # --- threaded oracle
            for name, nr in rec.nodes.items():
                seqs = [int(s) for s in onp.atleast_1d(nr.steps.seq)]
                for k in seqs:
                    cnt = len(A.get((name, e, k), []))
                    want = 1
                    if name == sup and (k in overridden or k >= n):
                        want = 0  # supplied by the user / trailing row interrupted by stop()
                    if cnt != want:
                        res.fail(
                            "C06.threaded_execution_count",
                            dict(node=name, eps=e, seq=k, executed=cnt, want=want, jit=bool(spec["jit"].get(name)), api=case["amode"],
                                 kind="supervisor" if name == sup else "node"),
                        )
                        return res
                    n_counted += 1
                    nodes_counted.add(name)
            for key, rows in A.items():
                if key[1] == e and len(rows) > 1:
                    res.fail("C06.threaded_execution_count", dict(node=key[0], eps=e, seq=key[2], executed=len(rows), want=1, note="not in record"))
                    return res
        run.trace.clear()
        # --- compiled oracle
        cg = ExperimentRecord(episodes=recs).to_graph()
        try:
            graph = compiledrun.compile_graph(run.nodes, sup, cg, mode=case["mode"], prune=case["prune"])
        except ValueError as ex:
            if "There are no nodes in the partition" in str(ex):
                res.label("rejected_empty_partition")
                res.nontrivial = n_counted >= 10 and len(nodes_counted) >= 2
                return res
            raise
        N = int(graph.max_steps)
        if N >= 1:
            for e in range(len(spec["episodes"])):
                gs = compiledrun.init_like(graph, run.starts[e], eps=e)
                overridden = set()
                if case["cmode"] == "rollout":
                    out = jax.jit(functools.partial(graph.rollout, max_steps=N, carry_only=True))(gs)
                    parts, sup_steps = N, N
                elif case["cmode"] == "eager_run":
                    n_e = min(N, 2)
                    out = gs
                    for _ in range(n_e):
                        out = graph.run(out)
                    parts, sup_steps = n_e, n_e
                else:
                    reset, step = jax.jit(graph.reset), jax.jit(graph.step)
                    from rexverif.probes import POut
                    import jax.numpy as jnp

                    # reset + max_steps step() calls: partitions 0..N (the last column of the schedule included), supervisor steps 0..N-1
                    out, ss = reset(gs)
                    for i in range(N):
                        if i % 2 == 1:
                            out, ss = step(out, ss, POut(a=jnp.array([run.sup.nid, -7, 4242, 0], dtype=jnp.int32)))
                            overridden.add(i)
                        else:
                            out, ss = step(out)
                    parts, sup_steps = N + 1, N
                jax.block_until_ready(out.step)
                B = run.trace.by_key()
                run.trace.clear()
                want = compiledrun.scheduled_vertices(graph, e, parts)
                want_keys = set()
                for (kind, seq), where in want.items():
                    if len(where) != 1:
                        res.fail("C06.vertex_scheduled_twice", dict(kind=kind, seq=seq, where=where))
                        return res
                    w = 1
                    if kind == sup and (seq >= sup_steps or seq in overridden):
                        w = 0
                    cnt = len(B.get((kind, e, seq), []))
                    if cnt != w:
                        res.fail(
                            "C06.compiled_execution_count",
                            dict(node=kind, eps=e, seq=seq, executed=cnt, want=w, api=case["cmode"], mode=case["mode"], prune=case["prune"],
                                 kind="supervisor" if kind == sup else "node"),
                        )
                        return res
                    want_keys.add((kind, e, seq))
                    n_counted += 1
                    nodes_counted.add(kind)
                for key, rows in B.items():
                    if key not in want_keys:
                        res.fail("C06.compiled_executed_unscheduled_step", dict(key=list(key), executed=len(rows), api=case["cmode"], mode=case["mode"]))
                        return res
                # masked slots exist?
                sched = compiledrun.schedule_of(graph)
                if any((~s["run"][e, :parts]).any() for s in sched.values()):
                    res.label("has_masked_slots")
        res.count("ticks_counted", n_counted)
        res.nontrivial = n_counted >= 10 and len(nodes_counted) >= 2
    except Hang:
        res.rejected = "hang"
        asynccase.CONTAMINATED[0] = True
    except TypeError as ex:
        if "tree_map() missing 1 required positional argument" in str(ex):
            res.rejected = "get_record raises on a connection/node without any recorded row"
        else:
            raise
    finally:
        if run is not None:
            run.close()
    return res


def regressions():
    return []
