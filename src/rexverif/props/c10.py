"""C10 — a trainable (zero-order-hold) delay set to d behaves exactly like a static delay of d."""
import functools

import numpy as onp
from hypothesis import strategies as st

from rexverif import compiledrun, sysgen
from rexverif.common import CaseResult

ID = "C10"
TIERS = {
    "quick": dict(examples=48, shards=16, timeout_s=2400, shrink_s=180),
    "thorough": dict(examples=400, shards=16, timeout_s=10800, shrink_s=300),
}
RULE = (
    "Hypothesis draws a node system supported by generate_graphs (2-4 nodes, non-blocking, light/heavy/tie delays) in which "
    "one connection gets a trainable zoh delay with range [min,max] of 0.1-4 sender periods and window 1-3, a delay d inside "
    "[min,max] (end points included) or outside (saturation), the way d is set (TrainableDist.create / overridden init_delays / "
    "params read by init_delays), a seed and a horizon. Oracles: (1) reference window model on the generated vertices with "
    "arrival = sender end + d: the receiver sees exactly `window` entries, the last ones that arrived by its start; (2) "
    "differential against the compiled *static twin* (same rng => same vertices, connection Deterministic(clip(d))): window "
    "sequence numbers, send times, payloads, and the digests (states, outputs) of all nodes agree. Steps at/after an exact tie "
    "arrival == start are tie_tolerant; cases where the sender emits more than ceil(rate*(max-min)) messages within max-min "
    "(rex's window sizing assumption) are out_of_contract and not asserted. Non-trivial = d moves at least one message across "
    "a receiver step boundary relative to the minimal delay and >= 5 receiver steps were asserted; distinct = hash of the case."
)
ASSUMPTIONS = [
    "window extension sizing assumption of rex (sender emits <= ceil(rate*(max-min)) messages in any interval max-min) - violated cases counted, not asserted",
    "exact ties between a delayed arrival and a step start are not asserted (2 us)",
    "digests exclude the bit pattern of ts_recv (trainable: float32 ts_sent + d; static: float32 ts_end + d may differ by one ulp)",
]


@st.composite
def _case(draw, tier):
    spec = draw(sysgen.system_spec(min_nodes=2, max_nodes=4, allow_blocking=False, allow_advance=False, allow_buffer=False, allow_phase=False, max_eps=1,
                                   classes=("light", "heavy", "tie")))
    ci = draw(st.integers(0, len(spec["conns"]) - 1))
    c = spec["conns"][ci]
    rate_s = next(n["rate"] for n in spec["nodes"] if n["name"] == c["src"])
    period = 1.0 / rate_s
    lo = round(draw(st.integers(0, 150)) / 100.0 * period, 4)
    hi = round(lo + draw(st.integers(10, 400)) / 100.0 * period, 4)
    where = draw(st.sampled_from(["inside", "inside", "inside", "min", "max", "below", "above"]))
    frac = draw(st.integers(1, 99)) / 100.0
    d = {"inside": lo + frac * (hi - lo), "min": lo, "max": hi, "below": max(0.0, lo - frac * period), "above": hi + frac * period}[where]
    how = draw(st.sampled_from(["dist", "init_delays", "params"])) if where in ("inside", "min", "max") else draw(st.sampled_from(["init_delays", "params"]))
    c["window"] = draw(st.integers(1, 3))
    # fix the expected delays so that phases (hence vertices) are identical for the trainable system and its static twin
    for n in spec["nodes"]:
        n["exp_delay"] = 0.0
    for cc in spec["conns"]:
        cc["exp_delay"] = 0.0
    return dict(spec=spec, ci=ci, min=lo, max=hi, d=round(d, 6), where=where, how=how, ts_max=draw(st.integers(5, 25)) / 10.0,
                seed=draw(st.integers(0, 2**31 - 1)), mode=draw(st.sampled_from(compiledrun.MODES)))


def strategy(tier):
    return _case(tier)


def _make_nodes(case, trainable, trace):
    import copy

    import jax.numpy as jnp

    from rexverif.probes import PParams, ProbeNode

    spec = copy.deepcopy(case["spec"])
    c = spec["conns"][case["ci"]]
    d_clip = min(max(case["d"], case["min"]), case["max"])
    how, dval = case["how"], case["d"]
    if trainable:
        d0 = d_clip if how == "dist" else (case["min"] + case["max"]) / 2
        c["delay"] = {"k": "train", "min": case["min"], "max": case["max"], "d": d0, "interp": "zoh"}
    else:
        c["delay"] = {"k": "det", "c": d_clip}
    recv_name, src_name = c["dst"], c["src"]

    class DelayProbe(ProbeNode):
        digest_ts_recv = False

        def init_params(self, rng=None, graph_state=None):
            p = super().init_params(rng, graph_state)
            if how == "params" and self.name == recv_name:  # same params in the static twin (the digest mixes them)
                return PParams(nid=p.nid, c=jnp.int32(round(dval * 1e6)))
            return p

        def init_delays(self, rng=None, graph_state=None):
            out = super().init_delays(rng, graph_state)
            if trainable and self.name == recv_name:
                if how == "init_delays":
                    out[src_name] = dval
                elif how == "params":
                    out[src_name] = graph_state.params[self.name].c.astype(jnp.float32) / 1e6
            return out

    return sysgen.build_nodes(spec, trace=trace, node_cls=DelayProbe), recv_name, src_name, d_clip


def check(case) -> CaseResult:
    import jax

    from rex.artificial import generate_graphs
    from rexverif.probes import Trace

    res = CaseResult()
    res.label("where_" + case["where"], "how_" + case["how"], "mode_" + case["mode"])
    key = jax.random.PRNGKey(case["seed"])
    sup = case["spec"]["supervisor"]
    traces, graphs_np, Ns = [], [], []
    for trainable in (True, False):
        tr = Trace()
        nodes, recv, src, d_clip = _make_nodes(case, trainable, tr)
        G = generate_graphs(nodes, ts_max=case["ts_max"], rng=key, num_episodes=1)
        if int((onp.asarray(G.vertices[sup].seq) >= 0).sum()) < 2:
            res.rejected = "fewer than two supervisor steps end inside the horizon (nothing to compile)"
            return res
        try:
            graph = compiledrun.compile_graph(nodes, sup, G, mode=case["mode"], prune=True)
        except ValueError as ex:
            if "There are no nodes in the partition" in str(ex):
                res.rejected = "empty partition (supervisor depends on nothing)"
                return res
            raise
        N = int(graph.max_steps)
        if N < 1:
            res.rejected = "horizon too short"
            return res
        try:
            gs = graph.init(jax.random.PRNGKey(7))
            out = jax.jit(functools.partial(graph.rollout, max_steps=N, carry_only=True))(gs)
            jax.block_until_ready(out.step)
        except (ValueError, TypeError, IndexError, AssertionError) as ex:  # a graph generate_graphs produced must run
            res.fail("C10.compiled_run_raises", dict(trainable=trainable, err=f"{type(ex).__name__}: {str(ex)[:200]}", how=case["how"]))
            return res
        traces.append(tr.by_key())
        graphs_np.append(jax.tree_util.tree_map(onp.asarray, G))
        Ns.append(N)
    Tt, Ts = traces
    Gt, Gs_ = graphs_np
    # same vertices in both systems (same rng, same phases)
    for name in Gt.vertices:
        if not onp.array_equal(Gt.vertices[name].ts_start, Gs_.vertices[name].ts_start) or not onp.array_equal(Gt.vertices[name].ts_end, Gs_.vertices[name].ts_end):
            res.rejected = "vertices of twin differ (harness precondition)"
            return res
    W = case["spec"]["conns"][case["ci"]]["window"]
    skip = case["spec"]["conns"][case["ci"]]["skip"]
    rate_s = next(n["rate"] for n in case["spec"]["nodes"] if n["name"] == src)
    ext = int(onp.ceil(rate_s * (case["max"] - case["min"])))
    s_end = Gt.vertices[src].ts_end[0].astype(onp.float64)
    s_seq = Gt.vertices[src].seq[0]
    r_start = Gt.vertices[recv].ts_start[0].astype(onp.float64)
    sent = [i for i in range(len(s_seq)) if s_seq[i] >= 0]
    arr_d = {i: s_end[i] + d_clip for i in sent}
    arr_min = {i: s_end[i] + case["min"] for i in sent}
    # first exact tie (in time) on the trainable connection: nothing at or after it is asserted
    tie_t = onp.inf
    for i in ([] if case.get("exact_ties") else sent):  # exact_ties: dyadic scenario, float32 arithmetic is exact, ties are asserted
        for t in r_start:
            if abs(arr_d[i] - t) < 2e-6 or abs(arr_min[i] - t) < 2e-6:
                tie_t = min(tie_t, t)
    n_asserted, crossed = 0, False
    for (name, e, k), rows in sorted(Tt.items()):
        if name != recv:
            continue
        t = float(r_start[k])
        if t >= tie_t:
            res.label("tie_tolerant")
            continue
        got = onp.asarray(rows[0]["ins"][src]["seq"]).tolist()
        if len(got) != W:
            res.fail("C10.step_does_not_receive_exactly_window_entries", dict(step=k, got=len(got), window=W))
            return res
        arrived = [i for i in sent if arr_d[i] <= t]
        consumed_min = [i for i in sent if (arr_min[i] < t if skip else arr_min[i] <= t)]
        held = consumed_min[-(W + ext):]
        if any(i not in held for i in arrived[-W:]) or len([i for i in held if i not in arrived]) > ext:
            res.label("out_of_contract")
            continue
        want = [-1] * (W - len(arrived[-W:])) + arrived[-W:]
        if got != want:
            res.fail("C10.window_differs_from_static_delay_model", dict(step=k, got=got, want=want, d=d_clip, min=case["min"], max=case["max"], how=case["how"], where=case["where"], window=W, ext=ext, skip=skip))
            return res
        if len(arrived) != len(consumed_min):
            crossed = True
        n_asserted += 1
    # differential against the static twin
    if "out_of_contract" not in res.classes:
        for key_, rows in Tt.items():
            name, e, k = key_
            t = float(Gt.vertices[name].ts_start[0][k])
            if t >= tie_t:
                continue
            if key_ not in Ts:
                continue  # pruning may differ (different edges): only common steps are compared
            a, b = rows[0], Ts[key_][0]
            for f in ("dig", "new_dig", "out", "cnt"):
                if not onp.array_equal(onp.asarray(a[f]), onp.asarray(b[f])):
                    res.fail("C10.differs_from_static_twin", dict(node=name, step=k, field=f, trainable=a[f], static=b[f], d=d_clip, how=case["how"], where=case["where"]))
                    return res
            if name == recv:
                for f in ("seq", "ts_sent", "a"):
                    if not onp.array_equal(onp.asarray(a["ins"][src][f]), onp.asarray(b["ins"][src][f])):
                        res.fail("C10.window_differs_from_static_twin", dict(step=k, field=f, trainable=a["ins"][src][f], static=b["ins"][src][f], d=d_clip, how=case["how"]))
                        return res
        res.label("twin_compared")
    res.count("receiver_steps_asserted", n_asserted)
    if crossed:
        res.label("delay_moves_a_message_across_a_step")
    res.nontrivial = crossed and n_asserted >= 5
    return res


def regressions():
    """Exact ties, asserted strictly: dyadic rates and delays (8 Hz, sender delay 1/16 s, d = 1/16 s in [0, 1/4]) make every
    delayed arrival coincide with a receiver step start, and float32 arithmetic is exact for these values. A non-skipped
    static connection hands such a message to that very step; so must the trainable one."""
    det = lambda c: {"k": "det", "c": c}
    out = []
    for how in ("dist", "init_delays"):
        spec = dict(
            nodes=[dict(name="n0", rate=8, delay=det(0.0625), exp_delay=0.0, advance=False, scheduling="FREQUENCY"),
                   dict(name="n1", rate=8, delay=det(0.0), exp_delay=0.0, advance=False, scheduling="FREQUENCY")],
            conns=[dict(src="n0", dst="n1", blocking=False, skip=False, jitter="LATEST", window=2, delay=det(0.0), exp_delay=0.0)],
            supervisor="n1", seed=1, episodes=[5], jit={}, cls="tie", carry=False)
        out.append(dict(spec=spec, ci=0, min=0.0, max=0.25, d=0.0625, where="inside", how=how, ts_max=2.0, seed=1, mode="MCS", exact_ties=True))
    return out
