"""C16 — node phases and node infos stay consistent with the configured delays (histories of connect / set_delay / info round trips)."""
import numpy as onp
from hypothesis import strategies as st

from rexverif import sysgen
from rexverif.common import CaseResult

ID = "C16"
TIERS = {
    "quick": dict(examples=2400, shards=16, timeout_s=1800, shrink_s=120, sim_per_shard=4),
    "thorough": dict(examples=60000, shards=16, timeout_s=7200, shrink_s=300, sim_per_shard=40),
}
RULE = (
    "Hypothesis draws a history of operations over a growing node set: add node (rate, delay distribution, optional explicit "
    "expected delay), connect (blocking/skip/window/jitter, distribution, optional expected delay, optional shadow input "
    "name; occasionally closing an un-skipped cycle), node.set_delay and connection.set_delay (distribution and/or expected "
    "delay, including 0.0). After every operation a reference model (own longest-path DP over non-skipped connections) is "
    "compared with node.phase / phase_output / connection.phase, un-skipped cycles must raise RecursionError mentioning "
    "'Algebraic loop', delay / delay_dist / info must reflect the last set_delay, and from_info + connect_from_info must give "
    "equal infos, phases, input names and connections. A few histories per shard end with a simulated episode on the threaded "
    "runtime in which deterministic delays set by set_delay must be the recorded computation / communication delays. "
    "Non-trivial = >= 3 nodes, >= 1 set_delay after a connection exists and a phase > 0; distinct = hash of the history."
)
ASSUMPTIONS = [
    "default expected delays (99th percentile) are read back once at creation; the percentile itself is C15's property",
    "phases compared with 1e-9 absolute tolerance",
]

_dist = st.one_of(
    st.integers(0, 60).map(lambda i: {"k": "det", "c": i / 1000.0}),
    st.tuples(st.integers(0, 50), st.integers(0, 10)).map(lambda t: {"k": "normal", "mu": t[0] / 1000.0, "sigma": t[1] / 1000.0}),
)
_delay = st.one_of(st.none(), st.sampled_from([0.0, 0.001, 0.01, 0.02, 0.05]), st.integers(0, 80).map(lambda i: i / 1000.0))


@st.composite
def _history(draw, tier):
    ops = []
    n_nodes = 0
    conns = []  # (dst, src)
    for _ in range(draw(st.integers(3, 14))):
        kind = draw(st.sampled_from(["add", "add", "connect", "connect", "connect", "node_set", "conn_set", "cycle"]))
        if n_nodes < 2:
            kind = "add"
        if kind == "add" and n_nodes >= 6:
            kind = "connect"
        if kind == "add":
            ops.append(dict(op="add", rate=draw(st.sampled_from([5, 10, 20, 50])), dist=draw(_dist), delay=draw(_delay)))
            n_nodes += 1
        elif kind in ("connect", "cycle"):
            dst = draw(st.integers(0, n_nodes - 1))
            src = draw(st.integers(0, n_nodes - 1))
            if src == dst:
                continue
            if (dst, src) in conns:
                continue
            # keep the graph free of un-skipped cycles unless this is a 'cycle' op: forward = higher index receives from lower
            back = src > dst
            skip = draw(st.booleans()) if not back else (kind != "cycle")
            ops.append(dict(op="connect", dst=dst, src=src, blocking=draw(st.booleans()), skip=skip, window=draw(st.integers(1, 3)),
                            buffer=draw(st.integers(0, 4)) == 0, dist=draw(_dist), delay=draw(_delay), shadow=draw(st.integers(0, 3)) == 0))
            conns.append((dst, src))
        elif kind == "node_set":
            ops.append(dict(op="node_set", i=draw(st.integers(0, n_nodes - 1)), dist=draw(st.one_of(st.none(), _dist)), delay=draw(_delay)))
        elif kind == "conn_set" and conns:
            ops.append(dict(op="conn_set", i=draw(st.integers(0, len(conns) - 1)), dist=draw(st.one_of(st.none(), _dist)), delay=draw(_delay)))
    return dict(ops=ops, simulate=False)


def strategy(tier):
    return _history(tier)


class _Sim:
    @staticmethod
    def strategy(tier):
        return _history(tier).map(lambda h: dict(h, simulate=True))

    @staticmethod
    def check(case):
        return check(case)


def extra(tier, seed, shard, nshards, col):
    from rexverif import common

    common.run_hypothesis(_Sim, tier, seed * 1000 + 700 + shard, TIERS[tier]["sim_per_shard"], col)


def _model_phases(mnodes, mconns):
    memo = {}

    def ph(i, stack=()):
        if i in memo:
            return memo[i]
        if i in stack:
            raise RecursionError("loop")
        best = 0.0
        for c in mconns:
            if c["dst"] == i and not c["skip"]:
                best = max(best, ph(c["src"], stack + (i,)) + mnodes[c["src"]]["delay"] + c["delay"])
        memo[i] = best
        return best

    out = {}
    for i in range(len(mnodes)):
        try:
            out[i] = ph(i)
        except RecursionError:
            out[i] = None  # on or downstream of an un-skipped cycle
    return out


def check(case) -> CaseResult:
    from rex.constants import Jitter
    from rexverif.probes import ProbeNode

    res = CaseResult()
    nodes, mnodes, mconns = [], [], []
    set_after_conn = False

    def verify(tag):
        want = _model_phases(mnodes, mconns)
        has_loop = any(v is None for v in want.values())
        for i, n in enumerate(nodes):
            try:
                got = n.phase
                err = None
            except RecursionError as e:
                got, err = None, str(e)
            if want[i] is None:
                if err is None:
                    res.fail("C16.unskipped_cycle_not_reported", dict(node=n.name, phase=got, after=tag))
                    return False
                if "Algebraic loop" not in err:
                    res.fail("C16.cycle_error_message", dict(node=n.name, msg=err[:120]))
                    return False
                res.label("algebraic_loop_reported")
                continue
            if err is not None:
                res.fail("C16.recursion_error_without_unskipped_cycle", dict(node=n.name, after=tag, msg=err[:120]))
                return False
            if abs(got - want[i]) > 1e-9:
                res.fail("C16.phase_is_not_longest_expected_delay_path", dict(node=n.name, got=got, want=want[i], after=tag))
                return False
            if has_loop:
                continue  # infos of nodes that merely *see* a node on the loop (skipped input) raise too: only phases are judged
            if abs(n.phase_output - (want[i] + mnodes[i]["delay"])) > 1e-9:
                res.fail("C16.phase_output", dict(node=n.name, got=n.phase_output, want=want[i] + mnodes[i]["delay"]))
                return False
            if abs(n.delay - mnodes[i]["delay"]) > 1e-12:
                res.fail("C16.node_delay_not_last_set", dict(node=n.name, got=n.delay, want=mnodes[i]["delay"], after=tag))
                return False
            if n.delay_dist is not mnodes[i]["dist_obj"]:
                res.fail("C16.node_delay_dist_not_last_set", dict(node=n.name, after=tag, want=mnodes[i]["dist"]))
                return False
            info = n.info
            if abs(info.phase - want[i]) > 1e-9 or abs(info.delay - mnodes[i]["delay"]) > 1e-12 or info.delay_dist is not mnodes[i]["dist_obj"] or info.rate != n.rate:
                res.fail("C16.node_info_stale", dict(node=n.name, after=tag, info_phase=info.phase, info_delay=info.delay))
                return False
        for c in mconns:
            if has_loop:
                break
            conn = nodes[c["dst"]].inputs[c["input_name"]]
            if abs(conn.delay - c["delay"]) > 1e-12:
                res.fail("C16.connection_delay_not_last_set", dict(conn=[c["src"], c["dst"]], got=conn.delay, want=c["delay"], after=tag))
                return False
            if conn.delay_dist is not c["dist_obj"]:
                res.fail("C16.connection_delay_dist_not_last_set", dict(conn=[c["src"], c["dst"]], after=tag, want=c["dist"]))
                return False
            if want[c["src"]] is not None:
                wantp = want[c["src"]] + mnodes[c["src"]]["delay"] + c["delay"]
                if abs(conn.phase - wantp) > 1e-9:
                    res.fail("C16.connection_phase", dict(conn=[c["src"], c["dst"]], got=conn.phase, want=wantp))
                    return False
                ii = conn.info
                if abs(ii.delay - c["delay"]) > 1e-12 or abs(ii.phase - wantp) > 1e-9 or ii.delay_dist is not c["dist_obj"] or ii.window != c["window"] or ii.skip != c["skip"] or ii.blocking != c["blocking"] or ii.name != c["input_name"] or ii.output != nodes[c["src"]].name:
                    res.fail("C16.connection_info_stale", dict(conn=[c["src"], c["dst"]], after=tag))
                    return False
        return True

    for k, op in enumerate(case["ops"]):
        tag = f"{k}:{op['op']}"
        if op["op"] == "add":
            d = sysgen.make_dist(op["dist"])
            try:
                n = ProbeNode(name=f"n{len(nodes)}", rate=op["rate"], delay_dist=d, delay=op["delay"], nid=len(nodes) + 1)
            except AssertionError:
                res.label("constructor_rejects_negative_delay")
                continue
            nodes.append(n)
            mnodes.append(dict(delay=op["delay"] if op["delay"] is not None else n.delay, dist=op["dist"], dist_obj=d, rate=op["rate"]))
        elif op["op"] == "connect":
            if op["dst"] >= len(nodes) or op["src"] >= len(nodes):
                continue
            d = sysgen.make_dist(op["dist"])
            name = f"in_{op['src']}" if op["shadow"] else None
            try:
                nodes[op["dst"]].connect(nodes[op["src"]], blocking=op["blocking"], skip=op["skip"], window=op["window"],
                                         jitter=Jitter.BUFFER if op["buffer"] else Jitter.LATEST, delay_dist=d, delay=op["delay"], name=name)
            except AssertionError:
                res.label("constructor_rejects_negative_delay")
                continue
            input_name = name or nodes[op["src"]].name
            conn = nodes[op["dst"]].inputs[input_name]
            mconns.append(dict(dst=op["dst"], src=op["src"], skip=op["skip"], blocking=op["blocking"], window=op["window"], input_name=input_name,
                               delay=op["delay"] if op["delay"] is not None else conn.delay, dist=op["dist"], dist_obj=d))
            if op["shadow"]:
                res.label("shadow_input_name")
        elif op["op"] == "node_set":
            if op["i"] >= len(nodes):
                continue
            d = sysgen.make_dist(op["dist"]) if op["dist"] is not None else None
            nodes[op["i"]].set_delay(delay_dist=d, delay=op["delay"])
            if d is not None:
                mnodes[op["i"]].update(dist=op["dist"], dist_obj=d)
            if op["delay"] is not None:
                mnodes[op["i"]]["delay"] = op["delay"]
            set_after_conn = set_after_conn or bool(mconns)
        elif op["op"] == "conn_set":
            if op["i"] >= len(mconns):
                continue
            c = mconns[op["i"]]
            d = sysgen.make_dist(op["dist"]) if op["dist"] is not None else None
            nodes[c["dst"]].inputs[c["input_name"]].set_delay(delay_dist=d, delay=op["delay"])
            if d is not None:
                c.update(dist=op["dist"], dist_obj=d)
            if op["delay"] is not None:
                c["delay"] = op["delay"]
                if op["delay"] == 0.0:
                    res.label("delay_reset_to_zero")
            set_after_conn = True
        if not verify(tag):
            return res

    want = _model_phases(mnodes, mconns)
    loop = any(v is None for v in want.values())
    # ---- info round trip
    if nodes and not loop:
        infos = {n.name: n.info for n in nodes}
        re = {n.name: ProbeNode.from_info(infos[n.name], nid=n.nid) for n in nodes}
        for n in nodes:
            re[n.name].connect_from_info(infos[n.name].inputs, re)
        for n in nodes:
            r = re[n.name]
            if abs(r.phase - n.phase) > 1e-9:
                res.fail("C16.roundtrip_phase", dict(node=n.name, got=r.phase, want=n.phase))
                return res
            if sorted(r.inputs.keys()) != sorted(n.inputs.keys()):
                res.fail("C16.roundtrip_input_names", dict(node=n.name, got=sorted(r.inputs.keys()), want=sorted(n.inputs.keys())))
                return res
            if {c.output_node.name for c in r.inputs.values()} != {c.output_node.name for c in n.inputs.values()}:
                res.fail("C16.roundtrip_connections", dict(node=n.name))
                return res
            if sorted(r.outputs.keys()) != sorted(n.outputs.keys()):
                res.fail("C16.roundtrip_outputs", dict(node=n.name, got=sorted(r.outputs.keys()), want=sorted(n.outputs.keys())))
                return res
            a, b = r.info, n.info
            same = (a.rate == b.rate and a.advance == b.advance and a.scheduling == b.scheduling and abs(a.phase - b.phase) < 1e-9 and a.delay == b.delay
                    and a.delay_dist is b.delay_dist and a.name == b.name and sorted(a.inputs) == sorted(b.inputs))
            if same:
                for key in a.inputs:
                    x, y = a.inputs[key], b.inputs[key]
                    same = same and (x.rate == y.rate and x.window == y.window and x.blocking == y.blocking and x.skip == y.skip and x.jitter == y.jitter
                                     and abs(x.phase - y.phase) < 1e-9 and x.delay == y.delay and x.delay_dist is y.delay_dist and x.name == y.name and x.output == y.output)
            if not same:
                res.fail("C16.roundtrip_info_differs", dict(node=n.name))
                return res
        res.label("roundtrip_checked")
    # ---- simulated episode: deterministic delays set by set_delay are the recorded ones
    if case.get("simulate") and not loop and len(nodes) >= 2 and mconns:
        _simulate(res, nodes, mnodes, mconns)
    res.label(f"nodes_{min(len(nodes), 6)}")
    res.nontrivial = len(nodes) >= 3 and set_after_conn and any((v or 0) > 0 for v in want.values())
    return res


def _simulate(res, nodes, mnodes, mconns):
    import jax

    from rex.asynchronous import AsyncGraph
    from rex.constants import Clock
    from rexverif import asyncrun

    # only non-blocking, non-advance systems with a supervisor that has inputs: always inside the supported class
    sup = nodes[mconns[0]["dst"]]
    if any(c["blocking"] for c in mconns):
        res.label("simulate_skipped_blocking")
        return
    nd = {n.name: n for n in nodes}
    graph = AsyncGraph(nodes=nd, supervisor=sup, clock=Clock.SIMULATED, real_time_factor=0)
    try:
        gs = graph.init(jax.random.PRNGKey(0))
        graph.warmup(gs, jit_step=False)
        for i in range(5):
            gs = asyncrun.call_with_watchdog(graph, f"run#{i}", graph.run, gs, budget_s=30.0)
        asyncrun.call_with_watchdog(graph, "stop", graph.stop, budget_s=30.0)
        rec = asyncrun.to_np(graph.get_record())
    except asyncrun.Hang:
        res.label("simulate_hang")
        return
    finally:
        asyncrun.shutdown(graph)
    from rexverif import refmodel

    for i, n in enumerate(nodes):
        det = refmodel.det_value(mnodes[i]["dist"])
        if det is not None and len(rec.nodes[n.name].steps.delay):
            got = onp.asarray(rec.nodes[n.name].steps.delay, dtype=float)
            if not onp.allclose(got, det, atol=1e-9):
                res.fail("C16.simulation_ignores_node_set_delay", dict(node=n.name, recorded=got[:3].tolist(), want=det))
                return
        ph = float(rec.nodes[n.name].steps.ts_scheduled[0]) if len(rec.nodes[n.name].steps.seq) else None
        if ph is not None and abs(ph - round(n.phase, 6)) > 2e-6:
            res.fail("C16.simulation_ignores_phase", dict(node=n.name, first_scheduled=ph, phase=n.phase))
            return
    for c in mconns:
        det = refmodel.det_value(c["dist"])
        m = rec.nodes[nodes[c["dst"]].name].inputs[nodes[c["src"]].name].messages
        if det is not None and len(onp.atleast_1d(m.seq_out)):
            sent, recv = onp.atleast_1d(m.ts_sent).astype(float), onp.atleast_1d(m.ts_recv).astype(float)
            # first message is never FIFO-clamped
            if abs((recv[0] - sent[0]) - det) > 2e-6:
                res.fail("C16.simulation_ignores_connection_set_delay", dict(conn=[c["src"], c["dst"]], recorded=recv[0] - sent[0], want=det))
                return
    res.label("simulated_episode_checked")


def regressions():
    """fixed in fa377a7: set_delay ignored the delay_dist argument."""
    det = lambda c: {"k": "det", "c": c}
    ops = [dict(op="add", rate=10, dist=det(0.01), delay=None), dict(op="add", rate=10, dist=det(0.01), delay=None),
           dict(op="connect", dst=1, src=0, blocking=False, skip=False, window=1, buffer=False, dist=det(0.01), delay=None, shadow=False),
           dict(op="node_set", i=0, dist=det(0.03), delay=None), dict(op="conn_set", i=0, dist=det(0.02), delay=0.0)]
    return [dict(ops=ops, simulate=False), dict(ops=ops, simulate=True)]
