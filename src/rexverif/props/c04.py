"""C04 — step start times obey the documented rate / phase / delay / scheduling law."""
from rexverif import asynccase, refmodel
from rexverif.common import CaseResult

ID = "C04"
TIERS = {
    "quick": dict(examples=96, shards=16, timeout_s=1500, shrink_s=120),
    "thorough": dict(examples=1000, shards=16, timeout_s=7200, shrink_s=300),
}
RULE = (
    "Hypothesis draws a node system (2-5 nodes, rates with ratio <= 5, forward edges + skipped back edges, blocking/skip/"
    "jitter/window per connection, advance on nodes with a blocking input, FREQUENCY/PHASE, delay class light/heavy/tie/"
    "zero with deterministic, normal and mixture delays), a seed, 1-3 episodes of 3-12 supervisor steps and the driving "
    "API (run / reset+step / step with overridden supervisor). Each episode is run on the threaded runtime under the "
    "simulated clock and its record is compared with a reference evaluation of the start-time recurrence computed from "
    "configuration + recorded delays and arrivals. Non-trivial = the episode contains an overrun (previous step ends "
    "after the scheduled start) or an input-late step (a blocking arrival after the scheduled start); distinct = hash of the drawn case."
)
ASSUMPTIONS = [
    "supported class of DESIGN §2.1 (look-ahead demand <= 8); a lifecycle call that hangs is counted and left to C05",
    "times are compared with 2 us tolerance (rex rounds to 1 us)",
    "the sampled communication delay is not recorded when FIFO clamps; communication is asserted exactly for deterministic delays only",
]


def strategy(tier):
    return asynccase.async_case()


def check(case) -> CaseResult:
    res = CaseResult()

    def on_episode(e, n, outs, rec, run):
        cfg = refmodel.config_of(run.nodes)
        refmodel.check_timing_law(rec, cfg, case["spec"], res)

    asynccase.drive(case, res, on_episode)
    res.label("cls_" + case["spec"]["cls"], "mode_" + case["mode"])
    res.nontrivial = "overrun" in res.classes or "input_late" in res.classes
    return res


def regressions():
    return []
