"""C19 — RL environment wrappers account episodes, actions and statistics correctly."""
import numpy as onp
from hypothesis import strategies as st

from rexverif.common import CaseResult

ID = "C19"
TIERS = {
    "quick": dict(examples=400, shards=16, timeout_s=2400, shrink_s=180, env_per_shard=2),
    "thorough": dict(examples=6000, shards=16, timeout_s=10800, shrink_s=300, env_per_shard=12),
}
RULE = (
    "Hypothesis draws a script (per in-episode step: reward, terminated, truncated; length 3-8), action bounds, a wrapper "
    "stacking in the order PPO uses (AutoReset fixed/fresh -> Log -> Squash or Clip -> Vec(batch 1-4) -> NormalizeObs -> "
    "NormalizeReward, each optional), a seed and a history of 5-25 steps with actions incl. +-1e6. The wrappers are driven "
    "over a scripted environment (duck-typed Environment whose observation exposes the in-episode time, the episode's "
    "initial draw and the action it received) and compared step by step with pure-Python reference models: pass-through vs "
    "reset-on-done (stored / freshly drawn initial state, reward and flags of the finished episode), log sums/lengths at each "
    "episode end, unsquash range and inverse, clip = clamp, running moments = batch merge (float64, 1e-4 pseudo-count) and "
    "~ plain mean/var of everything seen, discounted-return normalisation. A few cases per shard additionally check "
    "Environment.step == graph.step(gs, step_state, get_output(action)) on a real compiled graph. Non-trivial = >= 2 episode "
    "ends (one by truncation only or one by termination only) and >= 2 wrappers stacked; distinct = hash of the case."
)
ASSUMPTIONS = [
    "wrapper semantics are independent of the wrapped environment; the scripted environment implements the same reset/step/action_space/params interface",
    "stackings follow the order used by rex.ppo.train (LogWrapper inside AutoResetWrapper is not a supported stacking)",
    "float32 tolerances: 1e-5 relative for accumulations, 1e-3 for the comparison with plain mean/variance",
]


@st.composite
def _case(draw, tier):
    T = draw(st.integers(3, 8))
    script = []
    for t in range(T):
        script.append(dict(r=draw(st.integers(-50, 50)) / 10.0, term=draw(st.integers(0, 5)) == 0, trunc=draw(st.integers(0, 5)) == 0))
    if not any(s["term"] or s["trunc"] for s in script):
        script[-1]["trunc" if draw(st.booleans()) else "term"] = True
    B = draw(st.sampled_from([0, 0, 1, 2, 3, 4]))
    n = draw(st.integers(5, 25))
    lanes = max(B, 1)
    acts = [[draw(st.sampled_from([0.0, 0.3, -0.7, 1.5, -2.5, 10.0, -1e6, 1e6])) if draw(st.integers(0, 2)) == 0 else draw(st.integers(-300, 300)) / 100.0
             for _ in range(lanes)] for _ in range(n)]
    low = draw(st.integers(-30, 10)) / 10.0
    return dict(
        script=script,
        low=low,
        high=round(low + draw(st.sampled_from([0.1, 1.0, 2.0, 7.5])), 3),
        auto=draw(st.sampled_from(["none", "fixed", "fixed", "fresh", "fresh"])),
        log=draw(st.booleans()),
        act=draw(st.sampled_from(["none", "squash", "nosquash", "clip"])),
        B=B,
        norm_obs=draw(st.booleans()) and B > 0,
        norm_rew=draw(st.booleans()) and B > 0,
        gamma=draw(st.sampled_from([0.0, 0.5, 0.99])),
        seed=draw(st.integers(0, 2**31 - 1)),
        acts=acts,
    )


def strategy(tier):
    return _case(tier)


# ------------------------------------------------------------------ scripted environment (duck-typed rex.rl.Environment)


def _make_env(case):
    import jax
    import jax.numpy as jnp
    from flax import struct
    from flax.core import FrozenDict

    from rex import base, rl

    rew = jnp.array([s["r"] for s in case["script"]], dtype=jnp.float32)
    term = jnp.array([s["term"] for s in case["script"]])
    trunc = jnp.array([s["trunc"] for s in case["script"]])
    T = len(case["script"])
    low, high = jnp.array([case["low"]], dtype=jnp.float32), jnp.array([case["high"]], dtype=jnp.float32)

    class ScriptedEnv:
        params = {"agent": None}  # rng of "world" is the one AutoResetWrapper may split

        def action_space(self, gs):
            return rl.Box(low, high)

        def observation_space(self, gs):
            return rl.Box(jnp.array([-1e9] * 3), jnp.array([1e9] * 3))

        def _obs(self, w):
            return jnp.stack([w["t"].astype(jnp.float32), w["x0"], w["a"]])

        def reset(self, rng=None):
            rng = jax.random.PRNGKey(0) if rng is None else rng
            k_agent, k_world, k_x = jax.random.split(rng, 3)
            w = dict(t=jnp.int32(0), x0=jax.random.normal(k_x, ()), a=jnp.float32(0.0))
            gs = base.GraphState(rng=FrozenDict({"agent": k_agent, "world": k_world}), state=FrozenDict({"world": w}))
            return gs, self._obs(w), {}

        def step(self, gs, action):
            w = gs.state["world"]
            t = jnp.minimum(w["t"], T - 1)
            reward = rew[t] + w["x0"]
            w2 = dict(t=w["t"] + 1, x0=w["x0"], a=jnp.asarray(action, jnp.float32).reshape(-1)[0])
            gs2 = gs.replace(state=FrozenDict({"world": w2}))
            return gs2, self._obs(w2), reward, term[t], trunc[t], {}

    return ScriptedEnv()


def _ref_reset(rng):
    """what ScriptedEnv.reset draws (jax.random is trusted)."""
    import jax

    k_agent, k_world, k_x = jax.random.split(rng, 3)
    return dict(t=0, x0=float(jax.random.normal(k_x, ())), a=0.0, k_world=k_world)


def check(case) -> CaseResult:
    import jax
    import jax.numpy as jnp

    from rex import rl

    res = CaseResult()
    if case.get("what") == "env":
        return _check_env(case)
    env = _make_env(case)
    script, T = case["script"], len(case["script"])
    low, high = onp.float32(case["low"]), onp.float32(case["high"])
    w = env
    stack = []
    if case["auto"] != "none":
        w = rl.AutoResetWrapper(w, fixed_init=case["auto"] == "fixed")
        stack.append("auto_" + case["auto"])
    if case["log"]:
        w = rl.LogWrapper(w)
        stack.append("log")
    if case["act"] in ("squash", "nosquash"):
        w = rl.SquashActionWrapper(w, squash=case["act"] == "squash")
        stack.append(case["act"])
    elif case["act"] == "clip":
        w = rl.ClipActionWrapper(w)
        stack.append("clip")
    B = case["B"]
    if B > 0:
        w = rl.VecEnvWrapper(w)
        stack.append("vec")
        if case["norm_obs"]:
            w = rl.NormalizeVecObservationWrapper(w)
            stack.append("norm_obs")
        if case["norm_rew"]:
            w = rl.NormalizeVecReward(w, case["gamma"])
            stack.append("norm_rew")
    res.label(*stack)
    lanes = max(B, 1)
    key = jax.random.PRNGKey(case["seed"])
    keys = jax.random.split(key, lanes) if B > 0 else key[None]

    # ---------------- reference state per lane
    ref = []
    for b in range(lanes):
        r = _ref_reset(keys[b])
        r.update(init=dict(r), ep_ret=0.0, ep_len=0, ret_ret=0.0, ret_len=0, timestep=0)
        ref.append(r)

    def eff_action(a):
        a = onp.float32(a)
        if case["act"] == "squash":
            return onp.float32(0.5) * (onp.tanh(a) + onp.float32(1.0)) * (high - low) + low
        if case["act"] in ("nosquash", "clip"):
            return onp.clip(a, low, high)
        return a

    gs, obs, info = w.reset(keys if B > 0 else key)
    obs = onp.asarray(obs).reshape(lanes, -1)
    raw_obs_seen = [onp.array([[0.0, r["x0"], 0.0] for r in ref])]
    # running moments reference (float64)
    nm = dict(mean=onp.zeros(3), var=onp.ones(3), count=1e-4)
    rm = dict(mean=0.0, var=1.0, count=1e-4, ret=onp.zeros(lanes))

    def merge(st_, batch):
        bm, bv, bc = batch.mean(axis=0), batch.var(axis=0), batch.shape[0]
        delta = bm - st_["mean"]
        tot = st_["count"] + bc
        M2 = st_["var"] * st_["count"] + bv * bc + delta**2 * st_["count"] * bc / tot
        st_.update(mean=st_["mean"] + delta * bc / tot, var=M2 / tot, count=tot)

    def norm_obs(raw):
        return onp.clip((raw - nm["mean"]) / onp.sqrt(nm["var"] + 1e-8), -10.0, 10.0)

    def close(a, b, rtol=2e-5, atol=2e-5):
        return onp.allclose(onp.asarray(a, dtype=onp.float64), onp.asarray(b, dtype=onp.float64), rtol=rtol, atol=atol)

    if case["norm_obs"]:
        merge(nm, raw_obs_seen[0])
        want0 = norm_obs(raw_obs_seen[0])
    else:
        want0 = raw_obs_seen[0]
    if not close(obs, want0, atol=1e-4):
        res.fail("C19.reset_observation", dict(stack=stack, got=obs.tolist(), want=want0.tolist()))
        return res

    ends = dict(term_only=0, trunc_only=0, both=0)
    for i, acts in enumerate(case["acts"]):
        a_in = jnp.asarray(onp.array(acts, dtype=onp.float32).reshape(lanes, 1)) if B > 0 else jnp.asarray(onp.array(acts[:1], dtype=onp.float32))
        gs, obs, reward, terminated, truncated, info = w.step(gs, a_in)
        obs = onp.asarray(obs).reshape(lanes, -1)
        reward, terminated, truncated = onp.asarray(reward).reshape(lanes), onp.asarray(terminated).reshape(lanes), onp.asarray(truncated).reshape(lanes)
        raw_next, raw_rew, dones = [], [], []
        for b in range(lanes):
            r = ref[b]
            t = min(r["t"], T - 1)
            a_eff = float(eff_action(acts[b]))
            if case["act"] != "none" and not (low - 1e-6 <= a_eff <= high + 1e-6):
                res.fail("C19.reference_action_outside_bounds", dict(a=acts[b]))
                return res
            rw = onp.float32(script[t]["r"]) + onp.float32(r["x0"])
            te, tr = script[t]["term"], script[t]["trunc"]
            done = te or tr
            r["t"] += 1
            r["a"] = a_eff
            # flags and reward always describe the step just taken (the finished episode on an episode end)
            if bool(terminated[b]) != te or bool(truncated[b]) != tr:
                res.fail("C19.flags_differ", dict(stack=stack, step=i, lane=b, got=[bool(terminated[b]), bool(truncated[b])], want=[te, tr]))
                return res
            raw_rew.append(float(rw))
            dones.append(done)
            if done:
                ends["both" if te and tr else ("term_only" if te else "trunc_only")] += 1
            # log accounting
            if case["log"]:
                r["timestep"] += 1
                new_ret, new_len = r["ep_ret"] + float(rw), r["ep_len"] + 1
                if done:
                    r["ret_ret"], r["ret_len"], r["ep_ret"], r["ep_len"] = new_ret, new_len, 0.0, 0
                else:
                    r["ep_ret"], r["ep_len"] = new_ret, new_len
                got_ret = float(onp.asarray(info["returned_episode_returns"]).reshape(lanes)[b])
                got_len = int(onp.asarray(info["returned_episode_lengths"]).reshape(lanes)[b])
                got_done = bool(onp.asarray(info["returned_episode"]).reshape(lanes)[b])
                got_ts = int(onp.asarray(info["timestep"]).reshape(lanes)[b])
                if got_done != done or got_len != r["ret_len"] or not close(got_ret, r["ret_ret"], rtol=1e-5, atol=1e-4) or got_ts != r["timestep"]:
                    res.fail("C19.log_accounting", dict(stack=stack, step=i, lane=b, got=dict(ret=got_ret, len=got_len, done=got_done, ts=got_ts),
                                                      want=dict(ret=r["ret_ret"], len=r["ret_len"], done=done, ts=r["timestep"]), terminated=te, truncated=tr))
                    return res
            # next state / observation
            if case["auto"] == "fresh":
                new_k, init_k = jax.random.split(r["k_world"])
                if done:
                    fresh = _ref_reset(init_k)
                    r.update(t=0, x0=fresh["x0"], a=0.0, k_world=fresh["k_world"])
                else:
                    r["k_world"] = new_k
            elif case["auto"] == "fixed" and done:
                r.update(t=0, x0=r["init"]["x0"], a=0.0)
            raw_next.append([float(r["t"]), r["x0"], r["a"]])
        raw_next = onp.array(raw_next)
        raw_obs_seen.append(raw_next)
        if case["norm_obs"]:
            merge(nm, raw_next)
            want_obs = norm_obs(raw_next)
            st_ = gs.aux["norm_obs"]
            mag = float(onp.abs(onp.concatenate(raw_obs_seen, axis=0)).max())  # float32 cancellation scales with the data
            if not close(st_.mean, nm["mean"], rtol=1e-4, atol=1e-4 + 1e-5 * mag) or not close(st_.var, nm["var"], rtol=1e-3, atol=1e-3 + 1e-5 * mag * mag):
                res.fail("C19.running_observation_moments", dict(step=i, mean=onp.asarray(st_.mean).tolist(), want_mean=nm["mean"].tolist(), var=onp.asarray(st_.var).tolist(), want_var=nm["var"].tolist()))
                return res
            allobs = onp.concatenate(raw_obs_seen, axis=0)
            if allobs.shape[0] >= 8 and (not close(st_.mean, allobs.mean(axis=0), rtol=1e-3, atol=1e-3 + 1e-5 * mag) or not close(st_.var, allobs.var(axis=0), rtol=2e-3, atol=2e-3 + 1e-5 * mag * mag)):
                res.fail("C19.running_moments_are_not_mean_and_variance_of_everything_seen", dict(step=i, mean=onp.asarray(st_.mean).tolist(), plain=allobs.mean(axis=0).tolist()))
                return res
        else:
            want_obs = raw_next
        big = onp.abs(want_obs).max() > 1e4
        if not close(obs, want_obs, rtol=1e-4, atol=1e-3 if not big else 1.0):
            res.fail("C19.observation_after_step", dict(stack=stack, step=i, got=obs.tolist(), want=want_obs.tolist(), done=dones, auto=case["auto"], act=case["act"], action=acts))
            return res
        want_rew = onp.array(raw_rew)
        if case["norm_rew"]:
            d = onp.array(dones, dtype=float)
            rm["ret"] = rm["ret"] * case["gamma"] * (1 - d) + want_rew
            merge(rm, rm["ret"].reshape(-1, 1))
            rm["mean"], rm["var"] = float(onp.ravel(rm["mean"])[0]), float(onp.ravel(rm["var"])[0])
            want_rew = onp.clip(want_rew / onp.sqrt(rm["var"] + 1e-8), -10.0, 10.0)
            st_ = gs.aux["norm_reward"]
            if not close(st_.var, rm["var"], rtol=1e-3, atol=1e-4) or not close(st_.return_val, rm["ret"], rtol=1e-4, atol=1e-4):
                res.fail("C19.running_return_moments", dict(step=i, var=float(st_.var), want_var=rm["var"], ret=onp.asarray(st_.return_val).tolist(), want_ret=rm["ret"].tolist()))
                return res
        if not close(reward, want_rew, rtol=1e-3, atol=1e-4):
            res.fail("C19.reward_after_step", dict(stack=stack, step=i, got=reward.tolist(), want=want_rew.tolist()))
            return res

    # ---------------- squash state algebra (function level)
    if case["act"] in ("squash", "nosquash"):
        ss = rl.SquashState(low=jnp.array([low]), high=jnp.array([high]), squash=case["act"] == "squash")
        xs = jnp.array([[-1e6], [-30.0], [-2.0], [-0.3], [0.0], [0.7], [3.0], [30.0], [1e6]], dtype=jnp.float32)
        u = onp.asarray(jax.vmap(ss.unsquash)(xs))
        if not ((u >= low - 1e-6).all() and (u <= high + 1e-6).all()) or not onp.isfinite(u).all():
            res.fail("C19.unsquash_outside_bounds", dict(values=u.ravel().tolist(), low=float(low), high=float(high)))
            return res
        if case["act"] == "squash":
            ys = jnp.array([[low + f * (high - low)] for f in (0.1, 0.25, 0.5, 0.8, 0.9)], dtype=jnp.float32)
            back = onp.asarray(jax.vmap(lambda y: ss.unsquash(ss.scale(y)))(ys))
            if not close(back, onp.asarray(ys), rtol=1e-4, atol=1e-4 * float(high - low + 1)):
                res.fail("C19.unsquash_scale_not_inverse", dict(y=onp.asarray(ys).ravel().tolist(), back=back.ravel().tolist()))
                return res
            xs2 = jnp.array([[-2.0], [-0.5], [0.0], [0.4], [1.5]], dtype=jnp.float32)
            back2 = onp.asarray(jax.vmap(lambda x: ss.scale(ss.unsquash(x)))(xs2))
            if not close(back2, onp.asarray(xs2), rtol=1e-3, atol=1e-3):
                res.fail("C19.scale_unsquash_not_inverse", dict(x=onp.asarray(xs2).ravel().tolist(), back=back2.ravel().tolist()))
                return res
    n_ends = sum(ends.values())
    if ends["trunc_only"]:
        res.label("ended_by_truncation_only")
    if ends["term_only"]:
        res.label("ended_by_termination_only")
    res.nontrivial = n_ends >= 2 and (ends["trunc_only"] + ends["term_only"]) >= 1 and len(stack) >= 2
    return res


# ------------------------------------------------------------------ Environment.step == graph.step on a real compiled graph

_REAL = {}


def _real_env():
    if _REAL:
        return _REAL
    import jax
    import jax.numpy as jnp

    from rex import rl
    from rex.artificial import generate_graphs
    from rex.graph import Graph
    from rexverif import sysgen
    from rexverif.probes import POut

    det = lambda c: {"k": "det", "c": c}
    spec = dict(
        nodes=[dict(name="world", rate=20, delay=det(0.01), exp_delay=None, advance=False, scheduling="FREQUENCY"),
               dict(name="agent", rate=10, delay=det(0.01), exp_delay=None, advance=False, scheduling="FREQUENCY")],
        conns=[dict(src="world", dst="agent", blocking=False, skip=False, jitter="LATEST", window=2, delay=det(0.005), exp_delay=None),
               dict(src="agent", dst="world", blocking=False, skip=True, jitter="LATEST", window=1, delay=det(0.005), exp_delay=None)],
        supervisor="agent", seed=0, episodes=[], jit={}, cls="light")
    nodes = sysgen.build_nodes(spec)
    G = generate_graphs(nodes, ts_max=1.5, num_episodes=2)
    graph = Graph(nodes, nodes["agent"], G, progress_bar=False)

    class Env(rl.Environment):
        def observation_space(self, gs):
            return rl.Box(jnp.array([-1e9]), jnp.array([1e9]))

        def action_space(self, gs):
            return rl.Box(jnp.array([-1.0]), jnp.array([1.0]))

        def get_observation(self, gs):
            return gs.inputs["agent"]["world"].data.a[-1, 2:3].astype(jnp.float32)

        def get_output(self, gs, action):
            return POut(a=jnp.stack([jnp.int32(nodes["agent"].nid), gs.seq["agent"].astype(jnp.int32), (action[0] * 1000).astype(jnp.int32), jnp.int32(0)]))

        def get_reward(self, gs, action):
            return action[0] + gs.seq["agent"].astype(jnp.float32)

        def get_terminated(self, gs):
            return gs.seq["agent"] >= 7

        def get_truncated(self, gs):
            return gs.step >= 5

    env = Env(graph)
    _REAL.update(graph=graph, env=env, reset=jax.jit(env.reset), step=jax.jit(env.step), gstep=jax.jit(graph.step), nodes=nodes)
    return _REAL


class _EnvCases:
    @staticmethod
    def strategy(tier):
        return st.fixed_dictionaries(dict(what=st.just("env"), seed=st.integers(0, 2**31 - 1), acts=st.lists(st.integers(-100, 100).map(lambda i: i / 100.0), min_size=2, max_size=6)))

    @staticmethod
    def check(case):
        return check(case)


def extra(tier, seed, shard, nshards, col):
    from rexverif import common

    common.run_hypothesis(_EnvCases, tier, seed * 1000 + 900 + shard, TIERS[tier]["env_per_shard"], col)


def _check_env(case):
    import jax
    import jax.numpy as jnp

    res = CaseResult()
    res.label("environment_vs_graph_step")
    R = _real_env()
    env, graph = R["env"], R["graph"]
    gs, obs, info = R["reset"](jax.random.PRNGKey(case["seed"]))
    for i, a in enumerate(case["acts"]):
        action = jnp.array([a], dtype=jnp.float32)
        gs2, obs2, rew, term, trunc, info = R["step"](gs, action)
        want_gs, _ = R["gstep"](gs, gs.step_state["agent"], env.get_output(gs, action))
        la, lb = jax.tree_util.tree_leaves(gs2.replace(aux=None)), jax.tree_util.tree_leaves(want_gs.replace(aux=None))
        if len(la) != len(lb) or not all(onp.array_equal(onp.asarray(x), onp.asarray(y)) for x, y in zip(la, lb)):
            res.fail("C19.environment_step_is_not_graph_step_with_action_output", dict(step=i))
            return res
        if not onp.allclose(float(rew), a + float(want_gs.seq["agent"]), atol=1e-5) or bool(term) != bool(int(want_gs.seq["agent"]) >= 7) or bool(trunc) != bool(int(want_gs.step) >= 5):
            res.fail("C19.environment_hooks_not_evaluated_on_stepped_state", dict(step=i, reward=float(rew), seq=int(want_gs.seq["agent"]), step_count=int(want_gs.step)))
            return res
        if not onp.array_equal(onp.asarray(obs2), onp.asarray(env.get_observation(want_gs))):
            res.fail("C19.environment_observation", dict(step=i))
            return res
        # the world really received the action: its window holds the supervisor output with the encoded action
        gs = gs2
    res.nontrivial = len(case["acts"]) >= 2
    return res


def regressions():
    return []
