"""C15 — delay distributions: non-negative, replayable samples, true quantiles; estimator returns a proper distribution."""
import math

import numpy as onp
from hypothesis import strategies as st

from rexverif.common import CaseResult

ID = "C15"
TIERS = {
    "quick": dict(examples=1600, shards=16, timeout_s=1200, shrink_s=90, est_per_shard=3),
    "thorough": dict(examples=30000, shards=16, timeout_s=7200, shrink_s=240, est_per_shard=10),
}
RULE = (
    "Hypothesis draws a distribution (Deterministic / Normal / 2-4 component normal mixture / TrainableDist) with its "
    "parameters (locs down to slightly negative so the clip at 0 is exercised), an rng key, a sample shape in "
    "{None,(),(n,),(n,m)} and 2-5 quantile levels in [0.01,0.995]; plus (few, expensive) delay data sets for the "
    "estimator (constant / unimodal / bimodal, with an affine units change a*x+b). Oracles: samples >= 0 and correct "
    "shape; sample() leaves its object untouched, returns a new rng, same rng => same samples, reset(k) replays; "
    "jit(sample_pure) agrees; quantile non-decreasing; scipy normal CDF of quantile(q) == q (normal, deterministic) and "
    "own mixture CDF brackets q within one grid step (mixture); Node/Connection default delay == quantile(0.99) or the "
    "constructor rejects a negative one; estimator weights sum to 1, scales > 0, constant data => Deterministic(mean), "
    "fit(a*x+b) == a*fit(x)+b component-wise. Non-trivial = a stochastic distribution (normal with scale>0 or mixture) "
    "sampled with a non-scalar shape, or an estimator case with non-constant data; distinct = hash of the drawn spec."
)
ASSUMPTIONS = [
    "quantile levels are drawn from [0.01, 0.995]; outside, the mixture grid may legitimately raise 'Grid does not span'",
    "mixture quantile resolution = (grid_max - grid_min)/999 with the grid spanning the components' 0.1% / 99.9% quantiles widened by 10%",
    "scipy.stats.norm is trusted as the CDF reference; float32 tolerances 2e-5 on probabilities",
]

_loc = st.integers(-20, 400).map(lambda i: i / 1000.0)  # -0.02 .. 0.4 s
_scale = st.integers(1, 150).map(lambda i: i / 1000.0)
_q = st.integers(10, 995).map(lambda i: i / 1000.0)
_shape = st.sampled_from([None, [], [1], [7], [64], [3, 5]])


@st.composite
def _dist(draw):
    kind = draw(st.sampled_from(["det", "normal", "normal", "mixture", "mixture", "trainable"]))
    if kind == "det":
        return dict(kind=kind, loc=draw(st.integers(0, 400)) / 1000.0)
    if kind == "normal":
        return dict(kind=kind, loc=draw(_loc), scale=draw(st.one_of(st.just(0.0), _scale)))
    if kind == "mixture":
        n = draw(st.integers(2, 4))
        w = [draw(st.integers(1, 20)) for _ in range(n)]
        return dict(kind=kind, locs=[draw(_loc) for _ in range(n)], scales=[draw(_scale) for _ in range(n)], weights=[x / sum(w) for x in w])
    lo = draw(st.integers(0, 200)) / 1000.0
    return dict(kind=kind, min=lo, max=lo + draw(st.integers(1, 300)) / 1000.0, alpha=draw(st.integers(0, 100)) / 100.0,
                interp=draw(st.sampled_from(["zoh", "linear", "linear_real_only"])))


@st.composite
def _case(draw):
    return dict(
        what="dist",
        dist=draw(_dist()),
        key=draw(st.integers(0, 2**31 - 1)),
        key2=draw(st.integers(0, 2**31 - 1)),
        shape=draw(_shape),
        qs=sorted(draw(st.lists(_q, min_size=2, max_size=5))),
        jit=False,
        as_connection=draw(st.booleans()),
    )


@st.composite
def _est_case(draw):
    kind = draw(st.sampled_from(["constant", "unimodal", "bimodal", "bimodal"]))
    n = draw(st.integers(20, 60))
    m1 = draw(st.integers(5, 100)) / 1000.0
    m2 = m1 + draw(st.integers(20, 200)) / 1000.0
    s1 = draw(st.integers(1, 10)) / 1000.0
    u = [draw(st.integers(-2000, 2000)) / 1000.0 for _ in range(n)]
    which = [draw(st.booleans()) for _ in range(n)]
    a = draw(st.sampled_from([0.5, 2.0, 1000.0]))
    b = draw(st.sampled_from([0.0, 0.05])) * a
    return dict(what="est", kind=kind, m1=m1, m2=m2, s1=s1, u=u, which=which, a=a, b=b,
                ncomp=draw(st.integers(1, 3)), steps=draw(st.sampled_from([20, 60])), seed=draw(st.integers(0, 1000)))


def strategy(tier):
    return _case()


class _Est:
    """Second strategy driven by extra(): estimator cases."""

    @staticmethod
    def strategy(tier):
        return _est_case()

    @staticmethod
    def check(case):
        return check(case)


def extra(tier, seed, shard, nshards, col):
    from rexverif import common

    n = TIERS[tier]["est_per_shard"]
    common.run_hypothesis(_Est, tier, seed * 1000 + 500 + shard, n, col)


def _make(d):
    import distrax
    import jax.numpy as jnp

    from rex.base import StaticDist, TrainableDist

    if d["kind"] == "det":
        return StaticDist.create(distrax.Deterministic(loc=d["loc"]))
    if d["kind"] == "normal":
        return StaticDist.create(distrax.Normal(loc=d["loc"], scale=d["scale"]))
    if d["kind"] == "mixture":
        return StaticDist.create(
            distrax.MixtureSameFamily(
                mixture_distribution=distrax.Categorical(probs=jnp.array(d["weights"])),
                components_distribution=distrax.Normal(loc=jnp.array(d["locs"]), scale=jnp.array(d["scales"])),
            )
        )
    return TrainableDist.create(delay=d["min"] + d["alpha"] * (d["max"] - d["min"]), min=d["min"], max=d["max"], interp=d["interp"])


def _check_dist(case, res):
    import jax
    import jax.numpy as jnp
    from scipy.stats import norm

    from rex.base import DelayDistribution, TrainableDist
    from rex.node import BaseNode

    d = case["dist"]
    kind = d["kind"]
    res.label(kind)
    dist = _make(d)
    shape = case["shape"]
    shp = None if shape is None else tuple(shape)
    want_shape = () if shp is None else shp
    k1, k2 = jax.random.PRNGKey(case["key"]), jax.random.PRNGKey(case["key2"])

    # ---------------- sampling
    d0 = dist.reset(k1)
    rng_before = None if isinstance(d0, TrainableDist) else onp.asarray(d0.rng).copy()
    d1, s1 = d0.sample(shp)
    s1 = onp.asarray(s1)
    if s1.shape != want_shape:
        res.fail("sample.shape", dict(got=s1.shape, want=want_shape, kind=kind))
    if not (s1 >= 0).all():
        res.fail("sample.non_negative", dict(min=float(s1.min()), kind=kind))
    if not onp.isfinite(s1).all():
        res.fail("sample.finite", dict(kind=kind))
    if kind == "trainable":
        want = d["min"] + d["alpha"] * (d["max"] - d["min"])
        if not onp.allclose(s1, want, rtol=1e-5, atol=1e-7):
            res.fail("sample.trainable_constant", dict(got=float(s1.ravel()[0]), want=want))
        if d1 is not d0 and d1 != d0:
            res.fail("sample.trainable_state_changed")
    else:
        if not onp.array_equal(onp.asarray(d0.rng), rng_before):
            res.fail("sample.mutates_self")
        if onp.array_equal(onp.asarray(d1.rng), rng_before):
            res.fail("sample.returns_same_rng")
        _, s1b = d0.sample(shp)
        if not onp.array_equal(onp.asarray(s1b), s1):
            res.fail("sample.not_pure", dict(kind=kind))
        # replay: another instance that went elsewhere, reset to the same key
        other = dist.reset(k2)
        other, _ = other.sample(3)
        _, s1c = other.reset(k1).sample(shp)
        if not onp.array_equal(onp.asarray(s1c), s1):
            res.fail("reset.replays", dict(kind=kind))
        # the new state continues the stream (differs from the first draw when stochastic)
        stochastic = (kind == "normal" and d["scale"] > 0) or kind == "mixture"
        if stochastic and s1.size >= 4 and len(onp.unique(s1)) > 1:  # not all clipped to 0
            _, s2 = d1.sample(shp)
            if onp.array_equal(onp.asarray(s2), s1):
                res.fail("sample.new_state_repeats_stream", dict(kind=kind))
        if stochastic and kind == "normal" and s1.size >= 64 and d["loc"] > 4 * d["scale"]:
            # no clipping involved: sample mean within 6 sigma/sqrt(n)
            if abs(float(s1.mean()) - d["loc"]) > 6 * d["scale"] / math.sqrt(s1.size) + 1e-6:
                res.fail("sample.mean_far_from_loc", dict(mean=float(s1.mean()), loc=d["loc"], scale=d["scale"], n=int(s1.size)))
    if case["jit"] or case["key"] % 64 == 0:
        js = jax.jit(DelayDistribution.sample_pure, static_argnums=1)
        _, sj = js(d0, shp)
        if not onp.allclose(onp.asarray(sj), s1, rtol=1e-6, atol=1e-7):
            res.fail("sample.jit_differs", dict(kind=kind))
        res.label("jit_checked")

    # ---------------- quantiles
    qs = case["qs"]
    vals = []
    try:
        for q in qs:
            vals.append(float(onp.asarray(dist.quantile(q))))
        # vector-valued q is only exercised where the signature's `q: float` is visibly generalised and works (not mixtures)
        arr_q = onp.asarray(dist.quantile(jnp.array(qs) if kind != "det" else onp.array(qs))) if kind in ("normal", "det") else onp.array(vals)
    except RuntimeError as e:
        if "Grid does not span" in str(e):
            res.fail("quantile.grid_does_not_span_inside_range", dict(qs=qs, dist=d))
            return
        raise
    if arr_q.shape != (len(qs),):
        res.fail("quantile.vector_shape", dict(got=arr_q.shape, n=len(qs)))
    elif not onp.allclose(arr_q, vals, rtol=1e-5, atol=1e-6):
        res.fail("quantile.vector_differs_from_scalar", dict(vec=arr_q.tolist(), scalar=vals))
    if any(b < a - 1e-7 for a, b in zip(vals, vals[1:])):
        res.fail("quantile.monotone", dict(qs=qs, vals=vals, kind=kind))
    if kind == "det":
        if not onp.allclose(vals, d["loc"], rtol=1e-6, atol=1e-9):
            res.fail("quantile.deterministic", dict(vals=vals, loc=d["loc"]))
    elif kind == "trainable":
        want = d["min"] + d["alpha"] * (d["max"] - d["min"])
        if not onp.allclose(vals, want, rtol=1e-5, atol=1e-7):
            res.fail("quantile.trainable", dict(vals=vals, want=want))
    elif kind == "normal":
        if d["scale"] > 0:
            for q, v in zip(qs, vals):
                c = norm.cdf(v, loc=d["loc"], scale=d["scale"])
                # float32 ndtri: error in x of ~4 ulp(|loc|+3 scale) translates to pdf*dx in probability
                dx = 8 * 1.2e-7 * (abs(d["loc"]) + 4 * d["scale"])
                if abs(c - q) > 2e-5 + norm.pdf(v, loc=d["loc"], scale=d["scale"]) * dx:
                    res.fail("quantile.normal_cdf_roundtrip", dict(q=q, x=v, cdf=float(c), loc=d["loc"], scale=d["scale"]))
        else:
            if not onp.allclose(vals, d["loc"], atol=1e-6):
                res.fail("quantile.normal_zero_scale", dict(vals=vals, loc=d["loc"]))
    else:  # mixture
        locs, scales, w = onp.array(d["locs"]), onp.array(d["scales"]), onp.array(d["weights"])
        cdf = lambda x: float((w * norm.cdf((x - locs) / scales)).sum())
        gmin = float((norm.ppf(0.001) * scales + locs).min())
        gmax = float((norm.ppf(0.999) * scales + locs).max())
        gmin, gmax = gmin - 0.1 * abs(gmin), gmax + 0.1 * abs(gmax)  # grid = component 0.1% / 99.9% quantiles widened by 10%
        step = (gmax - gmin) / 999.0
        for q, v in zip(qs, vals):
            if cdf(v) < q - 2e-5:
                res.fail("quantile.mixture_below_q", dict(q=q, x=v, cdf=cdf(v), dist=d))
            if cdf(v - step * 1.001) > q + 2e-5:
                res.fail("quantile.mixture_more_than_one_grid_step_above", dict(q=q, x=v, cdf_prev=cdf(v - step), step=step, dist=d))

    # ---------------- default expected delay of nodes / connections
    if kind != "trainable" or case["as_connection"]:
        q99 = float(onp.asarray(dist.quantile(0.99)))
        try:
            if case["as_connection"]:
                a, b = BaseNode("a", 10.0), BaseNode("b", 10.0)
                a.connect(b, delay_dist=dist)
                got = a.inputs["b"].delay
            else:
                got = BaseNode("n", 10.0, delay_dist=dist).delay
        except AssertionError:
            if q99 >= 0:
                res.fail("default_delay.rejected_although_non_negative", dict(q99=q99, dist=d))
            else:
                res.rejected = "constructor rejects negative 99th percentile"
            got = None
        if got is not None:
            if got < 0:
                res.fail("default_delay.negative", dict(delay=got, dist=d))
            if abs(got - q99) > 1e-6 + 1e-5 * abs(q99):
                res.fail("default_delay.is_q99", dict(delay=got, q99=q99))
            # q99 really is the 99th percentile
            if kind == "normal" and d["scale"] > 0:
                c = norm.cdf(got, loc=d["loc"], scale=d["scale"])
                if abs(c - 0.99) > 1e-4:
                    res.fail("default_delay.not_99th_percentile", dict(cdf=float(c)))
    stochastic = (kind == "normal" and d["scale"] > 0) or kind == "mixture"
    res.nontrivial = stochastic and shape is not None and len(shape) >= 1 and int(onp.prod(shape)) > 1


def _data(case, a=1.0, b=0.0):
    u = onp.array(case["u"])
    if case["kind"] == "constant":
        x = onp.full(len(u), case["m1"])
    elif case["kind"] == "unimodal":
        x = case["m1"] + case["s1"] * u
    else:
        x = onp.where(onp.array(case["which"]), case["m1"] + case["s1"] * u, case["m2"] + 2 * case["s1"] * u)
    return (a * x + b).astype(onp.float32)


def _check_est(case, res):
    import distrax

    from rex.gmm_estimator import GMMEstimator

    res.label("est_" + case["kind"])

    def fit(data):
        est = GMMEstimator(data, verbose=False)
        est.fit(num_steps=case["steps"], num_components=case["ncomp"], step_size=0.05, seed=case["seed"])
        return est.get_dist()

    x = _data(case)
    if float(x.std()) < 1e-6 and case["kind"] != "constant":
        res.rejected = "degenerate data"
        return
    d = fit(x)
    if case["kind"] == "constant":
        if not isinstance(d.dist, distrax.Deterministic):
            res.fail("estimator.constant_data_not_deterministic", dict(type=type(d.dist).__name__))
        elif abs(float(d.dist.mean()) - float(x.mean())) > 1e-6:
            res.fail("estimator.constant_mean", dict(got=float(d.dist.mean()), want=float(x.mean())))
        return

    def parts(dd):
        m = dd.dist
        return (onp.asarray(m.mixture_distribution.probs, dtype=onp.float64), onp.asarray(m.components_distribution.loc, dtype=onp.float64),
                onp.asarray(m.components_distribution.scale, dtype=onp.float64))

    if not isinstance(d.dist, distrax.MixtureSameFamily):
        res.fail("estimator.not_a_mixture", dict(type=type(d.dist).__name__))
        return
    w, mu, sc = parts(d)
    if abs(w.sum() - 1) > 1e-5 or (w < 0).any():
        res.fail("estimator.weights_sum_to_one", dict(sum=float(w.sum()), w=w.tolist()))
    if not (sc > 0).all() or not onp.isfinite(sc).all():
        res.fail("estimator.scales_positive", dict(scales=sc.tolist()))
    if not onp.isfinite(mu).all():
        res.fail("estimator.locs_finite", dict(locs=mu.tolist()))
    # samples of the returned distribution are valid delays
    import jax

    _, s = d.reset(jax.random.PRNGKey(0)).sample(16)
    if not (onp.asarray(s) >= 0).all():
        res.fail("estimator.samples_non_negative")
    # units: fitting a*x+b gives a*mu+b, a*sigma, same weights
    a, b = case["a"], case["b"]
    if a != 1.0 or b != 0.0:
        d2 = fit(_data(case, a, b))
        if isinstance(d2.dist, distrax.MixtureSameFamily):
            w2, mu2, sc2 = parts(d2)
            if w2.shape != w.shape:
                res.label("est_pruned_differently")  # pruning threshold hit differently by rounding: not asserted
            else:
                span = float(x.std())
                if not onp.allclose(w2, w, atol=1e-2):
                    res.fail("estimator.units_weights", dict(w=w.tolist(), w2=w2.tolist(), a=a, b=b))
                if not onp.allclose(mu2, a * mu + b, atol=2e-2 * a * span + 1e-6 * (abs(b) + a)):
                    res.fail("estimator.units_locs", dict(mu=mu.tolist(), mu2=mu2.tolist(), a=a, b=b))
                if not onp.allclose(sc2, a * sc, rtol=5e-2, atol=1e-7 * a):
                    res.fail("estimator.units_scales", dict(sc=sc.tolist(), sc2=sc2.tolist(), a=a, b=b))
                res.label("est_units_checked")
        else:
            res.fail("estimator.units_type_changed", dict(type=type(d2.dist).__name__))
    res.nontrivial = True


def check(case) -> CaseResult:
    res = CaseResult()
    if case["what"] == "dist":
        _check_dist(case, res)
    else:
        _check_est(case, res)
    return res


def regressions():
    """fixed: mixture with a component below zero - low quantile levels raised 'Grid does not span'."""
    return [{"as_connection": False, "dist": {"kind": "mixture", "locs": [0.343, -0.017], "scales": [0.001, 0.001], "weights": [0.5, 0.5]}, "jit": False,
             "key": 26548034, "key2": 42396, "qs": [0.01, 0.171, 0.343], "shape": [3, 5], "what": "dist"}]
