"""C18 — search solvers keep the best candidate, respect bounds and ignore NaN losses."""
import numpy as onp
from hypothesis import strategies as st

from rexverif.common import CaseResult

ID = "C18"
TIERS = {
    "quick": dict(examples=160, shards=16, timeout_s=2400, shrink_s=180),
    "thorough": dict(examples=2000, shards=16, timeout_s=10800, shrink_s=300),
}
EVO = ["CMA_ES", "OpenES", "SimpleGA", "DE", "PSO", "Sep_CMA_ES", "SNES"]
RULE = (
    "Hypothesis draws a loss from a family (shifted quadratic, |x|, Rastrigin; optionally NaN on a half-space, inside a ball "
    "or everywhere) over 1-6 parameters in 1-2 pytree leaves, bounds (possibly tight or far from the optimum), the solver "
    "(CEM with num_samples 4-64, elite portion, smoothing in [0,1); or one of seven evosax strategies with a population "
    "size), a seed, 1-8 iterations, and whether the iterations are driven step by step or through the jitted cem()/evo() scan. "
    "The loss reports every (candidate, loss) to the host. Oracle over the history: all candidates within bounds; reported "
    "best-so-far loss non-increasing and equal to the smallest finite loss evaluated so far (inf before any); the reported "
    "best candidate attained it; NaN candidates never best while a finite one exists; CEM: when at least num_elites finite "
    "candidates exist the new mean equals smoothing*old + (1-smoothing)*mean(top-k finite) (reference model). Non-trivial = "
    ">= 2 iterations and (a NaN loss occurred next to finite ones, or the best improved in a later iteration); distinct = hash."
)
ASSUMPTIONS = [
    "'never elite while a finite candidate exists' is read as 'never ranked ahead of a finite candidate' (the elite count is fixed)",
    "evosax strategies are exercised through rex's evo_step/evo only; their internals are not modelled beyond best/bounds clauses",
]


@st.composite
def _case(draw, tier):
    dims = draw(st.lists(st.integers(1, 3), min_size=1, max_size=2))
    D = sum(dims)
    lo = [draw(st.integers(-30, 10)) / 10.0 for _ in range(D)]
    width = [draw(st.sampled_from([0.05, 0.5, 1.0, 2.0, 4.0])) for _ in range(D)]
    solver = draw(st.sampled_from(["cem", "cem", "cem"] + EVO))
    return dict(
        dims=dims,
        lo=lo,
        hi=[round(a + w, 4) for a, w in zip(lo, width)],
        kind=draw(st.sampled_from(["quad", "abs", "rastrigin"])),
        shift=[draw(st.integers(-30, 30)) / 10.0 for _ in range(D)],
        nan=draw(st.sampled_from(["none", "none", "halfspace", "ball", "all"])),
        nan_param=draw(st.integers(0, 100)) / 100.0,
        solver=solver,
        num_samples=(ns := draw(st.sampled_from([4, 8, 10, 16, 32, 64]))),
        elite_portion=(draw(st.integers(1, max(1, ns // 2))) + 0.5) / ns,
        smoothing=draw(st.sampled_from([0.0, 0.1, 0.5, 0.9])),
        seed=draw(st.integers(0, 2**31 - 1)),
        iters=draw(st.integers(1, 8)),
        scan=draw(st.booleans()),
    )


def strategy(tier):
    return _case(tier)


def check(case) -> CaseResult:
    import jax
    import jax.numpy as jnp

    from rex.base import Identity

    res = CaseResult()
    res.label(case["solver"], "nan_" + case["nan"], "scan" if case["scan"] else "stepwise")
    dims, D = case["dims"], sum(case["dims"])
    lo, hi, shift = onp.array(case["lo"]), onp.array(case["hi"]), onp.array(case["shift"], dtype=onp.float32)
    split = onp.cumsum(dims)[:-1]
    keys = [f"p{i}" for i in range(len(dims))]
    tree = lambda v: {k: jnp.asarray(x, dtype=jnp.float32) for k, x in zip(keys, onp.split(onp.asarray(v, dtype=onp.float32), split))}
    u_min, u_max = tree(lo), tree(hi)
    center = (lo + hi) / 2
    log = []  # (candidate vector, loss) in arrival order

    def loss(params, transform, rng):
        p = transform.apply(params)
        x = jnp.concatenate([p[k].reshape(-1) for k in keys])
        z = x - shift
        if case["kind"] == "quad":
            val = jnp.sum(z * z)
        elif case["kind"] == "abs":
            val = jnp.sum(jnp.abs(z))
        else:
            val = 10.0 * D + jnp.sum(z * z - 10.0 * jnp.cos(2 * jnp.pi * z))
        if case["nan"] == "halfspace":
            thr = lo[0] + case["nan_param"] * (hi[0] - lo[0])
            val = jnp.where(x[0] > thr, jnp.nan, val)
        elif case["nan"] == "ball":
            r = case["nan_param"] * 0.5 * float(onp.linalg.norm(hi - lo))
            val = jnp.where(jnp.sum((x - jnp.asarray(center, jnp.float32)) ** 2) < r * r, jnp.nan, val)
        elif case["nan"] == "all":
            val = val * jnp.nan
        jax.debug.callback(lambda xx, vv: log.append((onp.asarray(xx).copy(), float(vv))), x, val)
        return val

    transform = Identity.init()
    key = jax.random.PRNGKey(case["seed"])
    n_it = case["iters"]
    mean0 = tree(center)
    tol = 1e-5
    in_bounds = lambda x: (x >= lo.astype(onp.float32) - 1e-6).all() and (x <= hi.astype(onp.float32) + 1e-6).all()

    def judge_iteration(it, cands, losses_ret, best_loss, best_x, prev_best, seen_min):
        """cands: list of (x, loss) of this iteration. Returns new seen_min or None on failure."""
        for x, l in cands:
            if not in_bounds(x):
                res.fail("C18.candidate_outside_bounds", dict(solver=case["solver"], it=it, x=x.tolist(), lo=lo.tolist(), hi=hi.tolist(),
                                                              nan_candidate=bool(onp.isnan(x).any()), nan_loss_region=case["nan"]))
                return None
        lr = onp.asarray(losses_ret, dtype=onp.float64)
        lc = onp.array([l for _, l in cands], dtype=onp.float64)
        if len(lr) != len(lc) or not onp.array_equal(onp.sort(onp.nan_to_num(lr, nan=1e300)), onp.sort(onp.nan_to_num(lc, nan=1e300))):
            res.fail("C18.returned_losses_differ_from_evaluated", dict(it=it, n_ret=len(lr), n_eval=len(lc)))
            return None
        finite = [l for l in lc if onp.isfinite(l)]
        new_min = min([seen_min] + finite)
        bl = float(best_loss)
        if bl >= 1e38:
            bl = onp.inf  # evosax initialises best_fitness with the largest float32: "no finite loss yet"
        if bl > prev_best + 1e-12 * max(1.0, abs(prev_best)) if onp.isfinite(prev_best) else False:
            res.fail("C18.best_so_far_increased", dict(solver=case["solver"], it=it, prev=prev_best, now=bl))
            return None
        if onp.isnan(bl):
            res.fail("C18.best_loss_is_nan", dict(solver=case["solver"], it=it))
            return None
        if onp.isfinite(new_min):
            if abs(bl - new_min) > 1e-6 * max(1.0, abs(new_min)):
                res.fail("C18.best_so_far_is_not_min_finite_loss_seen", dict(solver=case["solver"], it=it, reported=bl, min_seen=new_min, nan=case["nan"]))
                return None
        else:
            if onp.isfinite(bl):
                res.fail("C18.finite_best_without_finite_evaluation", dict(solver=case["solver"], it=it, reported=bl))
                return None
        return new_min

    if case["solver"] == "cem":
        from rex.cem import CEMSolver, cem, cem_step

        solver = CEMSolver.init(u_min, u_max, num_samples=case["num_samples"], evolution_smoothing=case["smoothing"], elite_portion=case["elite_portion"])
        state = solver.init_state(mean0)
        num_elites = int(case["num_samples"] * case["elite_portion"])
        if num_elites < 1:
            res.rejected = "no elites (num_samples * elite_portion < 1)"
            return res
        seen_min, prev_best = onp.inf, onp.inf
        all_c = []
        if case["scan"]:
            final, losses = jax.jit(lambda s, k: cem(loss, solver, s, transform, max_steps=n_it, rng=k, verbose=False))(state, key)
            jax.block_until_ready(final.bestsofar_loss)
            jax.effects_barrier()
            losses = onp.asarray(losses)
            if len(log) != n_it * case["num_samples"]:
                res.fail("C18.number_of_evaluations", dict(got=len(log), want=n_it * case["num_samples"]))
                return res
            # callbacks are unordered: only whole-run clauses
            new_min = judge_iteration("all", list(log), losses.reshape(-1), final.bestsofar_loss, None, onp.inf, onp.inf)
            if new_min is None:
                return res
            all_c = list(log)
            state_f = final
        else:
            rngs = jax.random.split(key, n_it)
            for it in range(n_it):
                log.clear()
                old_mean = onp.concatenate([onp.asarray(state.mean[k]).reshape(-1) for k in keys]).astype(onp.float64)
                state, losses = cem_step(loss, solver, state, transform, rngs[it])
                jax.effects_barrier()
                cands = list(log)
                all_c += cands
                new_min = judge_iteration(it, cands, onp.asarray(losses), state.bestsofar_loss, None, prev_best, seen_min)
                if new_min is None:
                    return res
                if new_min < seen_min and it > 0:
                    res.label("best_improved_later")
                seen_min, prev_best = new_min, float(state.bestsofar_loss)
                # reference model of the mean update
                fin = sorted([(l, i) for i, (x, l) in enumerate(cands) if onp.isfinite(l)])
                if len(fin) >= num_elites:
                    kth = fin[num_elites - 1][0]
                    tie = len(fin) > num_elites and fin[num_elites][0] == kth  # ambiguous elite set
                    if not tie:
                        top = onp.mean([cands[i][0].astype(onp.float64) for _, i in fin[:num_elites]], axis=0)
                        want = case["smoothing"] * old_mean + (1 - case["smoothing"]) * top
                        got = onp.concatenate([onp.asarray(state.mean[k]).reshape(-1) for k in keys]).astype(onp.float64)
                        if not onp.allclose(got, want, rtol=1e-4, atol=1e-5):
                            res.fail("C18.cem_mean_is_not_smoothed_mean_of_finite_elites", dict(it=it, got=got.tolist(), want=want.tolist(), n_nan=len(cands) - len(fin), num_elites=num_elites))
                            return res
                        res.label("cem_mean_model_checked")
                if any(onp.isnan(l) for _, l in cands) and fin:
                    res.label("nan_next_to_finite")
            state_f = state
        # best candidate attained the best loss
        bl = float(state_f.bestsofar_loss)
        bx = onp.concatenate([onp.asarray(state_f.bestsofar[k]).reshape(-1) for k in keys])
        if onp.isfinite(bl):
            if not any(abs(l - bl) <= 1e-6 * max(1.0, abs(bl)) and onp.allclose(x, bx, atol=1e-6) for x, l in all_c if onp.isfinite(l)):
                res.fail("C18.best_candidate_did_not_attain_best_loss", dict(solver="cem", best_loss=bl, best_x=bx.tolist()))
                return res
        if case["scan"] and any(onp.isnan(l) for _, l in all_c) and any(onp.isfinite(l) for _, l in all_c):
            res.label("nan_next_to_finite")
    else:
        from rex.evo import EvoSolver, evo, evo_step

        pop = max(4, case["num_samples"] if case["num_samples"] <= 32 else 16)
        try:
            solver = EvoSolver.init(u_min, u_max, strategy=case["solver"], strategy_kwargs=dict(popsize=pop))
        except Exception as e:
            res.rejected = f"strategy constructor rejects: {type(e).__name__}"
            return res
        state = solver.init_state(mean0, rng=jax.random.PRNGKey(case["seed"] ^ 5))
        seen_min, prev_best = onp.inf, onp.inf
        all_c = []
        if case["scan"]:
            final, _, losses = jax.jit(lambda s, k: evo(loss, solver, s, transform, max_steps=n_it, rng=k, verbose=False))(state, key)
            jax.block_until_ready(final.best_fitness)
            jax.effects_barrier()
            all_c = list(log)
            new_min = judge_iteration("all", all_c, onp.asarray(losses).reshape(-1), final.best_fitness, None, onp.inf, onp.inf)
            if new_min is None:
                return res
            state_f = final
        else:
            rngs = jax.random.split(key, n_it)
            for it in range(n_it):
                log.clear()
                (state, _), losses = evo_step(loss, solver, state, transform, rngs[it])
                jax.effects_barrier()
                cands = list(log)
                all_c += cands
                new_min = judge_iteration(it, cands, onp.asarray(losses), state.best_fitness, None, prev_best, seen_min)
                if new_min is None:
                    return res
                if new_min < seen_min and it > 0:
                    res.label("best_improved_later")
                seen_min, prev_best = new_min, (float(state.best_fitness) if float(state.best_fitness) < 1e38 else onp.inf)
                if any(onp.isnan(l) for _, l in cands) and any(onp.isfinite(l) for _, l in cands):
                    res.label("nan_next_to_finite")
            state_f = state
        bl = float(state_f.best_fitness)
        bl = bl if bl < 1e38 else onp.inf
        bx = onp.asarray(solver.flatten(solver.unflatten(state_f.best_member))).reshape(-1)
        if onp.isfinite(bl):
            if not any(abs(l - bl) <= 1e-6 * max(1.0, abs(bl)) and onp.allclose(x, bx, atol=1e-6) for x, l in all_c if onp.isfinite(l)):
                res.fail("C18.best_candidate_did_not_attain_best_loss", dict(solver=case["solver"], best_loss=bl, best_x=bx.tolist()))
                return res
        if case["scan"] and any(onp.isnan(l) for _, l in all_c) and any(onp.isfinite(l) for _, l in all_c):
            res.label("nan_next_to_finite")
    res.nontrivial = n_it >= 2 and ("nan_next_to_finite" in res.classes or "best_improved_later" in res.classes)
    return res


def regressions():
    return []
