"""C14 — records and graphs convert, stack, pad and filter without loss."""
import numpy as onp
from hypothesis import strategies as st

from rexverif import rawgraphs, sysgen
from rexverif.common import CaseResult

ID = "C14"
TIERS = {
    "quick": dict(examples=3200, shards=16, timeout_s=1800, shrink_s=120),
    "thorough": dict(examples=300000, shards=16, timeout_s=7200, shrink_s=300),
}
RULE = (
    "Hypothesis draws 1-3 ragged episodes (independent raw-graph generator: 2-4 nodes, forward/back connections, per-node "
    "step counts, per-connection message counts incl. 0, unreceived tail messages and randomly dropped messages with seq_in "
    "= -1 mid-episode), optional record fields, a node subset and both filter flags. EpisodeRecords and base.Graphs are "
    "built directly from the drawn data. Oracle: round trips and set equalities - episode.to_graph() == own construction; "
    "ExperimentRecord.to_graph()[i] and Graph.stack(...)[i] == episode i on the prefix and -1 beyond; stack('padded')[i] "
    "likewise; len/getitem consistent; to_networkx_graph has exactly one node per vertex with seq != -1 (own times) and exactly "
    "the stateful edges plus one edge per message with both ends != -1; filter (graph and record, both flags) returns "
    "exactly the selected nodes and the connections among them with untouched values. Non-trivial = >= 2 episodes of "
    "different lengths or a dropped/unreceived message, and a proper node subset; distinct = hash of the case."
)
ASSUMPTIONS = [
    "records are synthetic (built with the public dataclasses and the infos of real connected nodes); real records are covered by C01/C03/C13",
    "dropped messages (seq_in = -1 in the middle of an edge) are allowed by the Edge docstring and are generated here only",
]


@st.composite
def _case(draw, tier):
    raw = draw(rawgraphs.raw_case(max_nodes=4, max_eps=3, max_steps=7))
    drops = []
    for ep in raw["episodes"]:
        drops.append([[draw(st.integers(0, 5)) == 0 for _ in e["recv"]] for e in ep["edges"]])
    subset = draw(st.lists(st.sampled_from(raw["names"]), min_size=1, max_size=len(raw["names"]), unique=True))
    return dict(raw=raw, drops=drops, subset=sorted(subset), with_rng=draw(st.booleans()), shadow=draw(st.integers(0, 3)) == 0)


def strategy(tier):
    return _case(tier)


def _graphs(case):
    """own construction of the per-episode base.Graph (with dropped messages)."""
    from rex import base

    raw = case["raw"]
    graphs, _ = rawgraphs.to_rex_graph(raw)
    out = []
    for e, g in enumerate(graphs):
        edges = {}
        for ci, c in enumerate(raw["conns"]):
            ed = g.edges[(c["src"], c["dst"])]
            si = onp.array(ed.seq_in).copy()
            for i, dr in enumerate(case["drops"][e][ci]):
                if dr:
                    si[i] = -1
            edges[(c["src"], c["dst"])] = base.Edge(seq_out=ed.seq_out, seq_in=si, ts_recv=ed.ts_recv)
        out.append(base.Graph(vertices=g.vertices, edges=edges))
    return out


def _records(case, graphs, nodes):
    """EpisodeRecords carrying the same data."""
    from rex import base
    from rex.constants import Clock

    raw = case["raw"]
    eps = []
    for e, g in enumerate(graphs):
        nrec = {}
        for nm in raw["names"]:
            v = g.vertices[nm]
            K = len(v.seq)
            steps = base.StepRecord(
                eps=onp.full(K, e, dtype=onp.int32), seq=onp.asarray(v.seq), ts_start=onp.asarray(v.ts_start), ts_end=onp.asarray(v.ts_end),
                delay=onp.asarray(v.ts_end) - onp.asarray(v.ts_start),
                rng=onp.arange(2 * K, dtype=onp.uint32).reshape(K, 2) if case["with_rng"] else None, inputs=None, state=None, output=None,
            )
            inputs = {}
            for c in nodes[nm].inputs.values():
                ed = g.edges[(c.output_node.name, nm)]
                M = len(ed.seq_out)
                src_end = onp.asarray(g.vertices[c.output_node.name].ts_end)
                msgs = base.MessageRecord(seq_out=onp.asarray(ed.seq_out), seq_in=onp.asarray(ed.seq_in), ts_sent=src_end[:M], ts_recv=onp.asarray(ed.ts_recv),
                                          delay=onp.asarray(ed.ts_recv) - src_end[:M])
                inputs[c.output_node.name] = base.InputRecord(info=c.info, messages=msgs)
            nrec[nm] = base.NodeRecord(info=nodes[nm].info, clock=Clock.SIMULATED, real_time_factor=0.0, ts_start=0.0, params=None, inputs=inputs, steps=steps)
        eps.append(base.EpisodeRecord(nodes=nrec))
    return eps


def _same_graph(res, clause, got, want, prefix_only=False):
    """want: per-episode graph; got: graph whose arrays may be padded with -1 beyond the prefix."""
    if set(got.vertices) != set(want.vertices) or set(got.edges) != set(want.edges):
        res.fail(clause + ".keys", dict(got_v=sorted(got.vertices), want_v=sorted(want.vertices), got_e=sorted(map(list, got.edges)), want_e=sorted(map(list, want.edges))))
        return False
    for kind, gd, wd, fields in (("vertex", got.vertices, want.vertices, ("seq", "ts_start", "ts_end")), ("edge", got.edges, want.edges, ("seq_out", "seq_in", "ts_recv"))):
        for k in wd:
            for f in fields:
                g, w = onp.asarray(getattr(gd[k], f)), onp.asarray(getattr(wd[k], f))
                n = len(w)
                if len(g) < n or not onp.array_equal(g[:n], w):
                    res.fail(clause + ".values", dict(kind=kind, key=str(k), field=f, got=g.tolist()[:12], want=w.tolist()[:12]))
                    return False
                if len(g) > n and not prefix_only and not (g[n:] == -1).all():
                    res.fail(clause + ".padding_not_minus_one", dict(kind=kind, key=str(k), field=f, tail=g[n:].tolist()[:8]))
                    return False
                if len(g) > n and prefix_only:
                    res.fail(clause + ".length", dict(kind=kind, key=str(k), field=f, got=len(g), want=n))
                    return False
    return True


def check(case) -> CaseResult:
    import jax

    from rex import base, utils

    res = CaseResult()
    raw = case["raw"]
    spec = rawgraphs.to_sys_spec(raw)
    if case["shadow"]:
        for c in spec["conns"]:
            c["name"] = "in_" + c["src"]  # shadow input names
        res.label("shadow_input_names")
    nodes = sysgen.build_nodes(spec)
    graphs = _graphs(case)
    E = len(graphs)
    records = _records(case, graphs, nodes)

    # 1. episode.to_graph()
    for e in range(E):
        if not _same_graph(res, "C14.episode_to_graph", records[e].to_graph(), graphs[e], prefix_only=True):
            return res
    # 2. ExperimentRecord.to_graph() / Graph.stack / len / getitem
    exp = base.ExperimentRecord(episodes=records)
    for label, cg in (("experiment_to_graph", exp.to_graph()), ("graph_stack", base.Graph.stack(graphs))):
        if len(cg) != E:
            res.fail(f"C14.{label}.len", dict(got=len(cg), want=E))
            return res
        for e in range(E):
            if not _same_graph(res, f"C14.{label}_getitem", cg[e], graphs[e]):
                return res
    cg = base.Graph.stack(graphs)
    # 3. stack("padded")
    st_ = exp.stack("padded")
    for e in range(E):
        ep = st_[e]
        for nm in raw["names"]:
            w = records[e].nodes[nm].steps
            g = ep.nodes[nm].steps
            for f in ("seq", "ts_start", "ts_end", "delay", "eps") + (("rng",) if case["with_rng"] else ()):
                a, b = onp.asarray(getattr(g, f)), onp.asarray(getattr(w, f))
                n = len(b)
                if not onp.array_equal(a[:n], b):
                    res.fail("C14.padded_stack_prefix", dict(node=nm, field=f, eps=e))
                    return res
                if len(a) > n and f != "rng" and not (a[n:] == -1).all():
                    res.fail("C14.padded_stack_padding_not_minus_one", dict(node=nm, field=f, eps=e, tail=a[n:].tolist()[:6]))
                    return res
            for src, ir in records[e].nodes[nm].inputs.items():
                for f in ("seq_out", "seq_in", "ts_sent", "ts_recv"):
                    a, b = onp.asarray(getattr(ep.nodes[nm].inputs[src].messages, f)), onp.asarray(getattr(ir.messages, f))
                    if not onp.array_equal(a[: len(b)], b) or (len(a) > len(b) and not (a[len(b):] == -1).all()):
                        res.fail("C14.padded_stack_messages", dict(node=nm, src=src, field=f, eps=e))
                        return res
    # 4. networkx conversion of each (padded) episode
    for e in range(E):
        G = utils.to_networkx_graph(cg[e], nodes=nodes)
        want_nodes, want_edges = {}, set()
        for nm in raw["names"]:
            v = graphs[e].vertices[nm]
            for k in range(len(v.seq)):
                want_nodes[f"{nm}_{k}"] = (float(v.ts_start[k]), float(v.ts_end[k]), nm)
                if k > 0:
                    want_edges.add((f"{nm}_{k-1}", f"{nm}_{k}"))
        for (src, dst), ed in graphs[e].edges.items():
            for so, si in zip(ed.seq_out, ed.seq_in):
                if so >= 0 and si >= 0:
                    want_edges.add((f"{src}_{int(so)}", f"{dst}_{int(si)}"))
        if set(G.nodes) != set(want_nodes):
            res.fail("C14.networkx_node_set", dict(eps=e, extra=sorted(set(G.nodes) - set(want_nodes))[:5], missing=sorted(set(want_nodes) - set(G.nodes))[:5]))
            return res
        if set(G.edges) != want_edges:
            res.fail("C14.networkx_edge_set", dict(eps=e, extra=sorted(set(G.edges) - want_edges)[:5], missing=sorted(want_edges - set(G.edges))[:5]))
            return res
        for n_, (ts, te, kind) in want_nodes.items():
            d = G.nodes[n_]
            if abs(float(d["ts_start"]) - ts) > 1e-9 or abs(float(d["ts_end"]) - te) > 1e-9 or d["kind"] != kind or int(d["seq"]) != int(n_.split("_")[1]):
                res.fail("C14.networkx_node_data", dict(eps=e, node=n_))
                return res
    # 5. filters
    sub = {n: nodes[n] for n in case["subset"]}
    conns_among = {(c["src"], c["dst"]) for c in raw["conns"] if c["src"] in sub and c["dst"] in sub}
    for flag in (True, False):
        fg = cg.filter(sub, filter_edges=flag)
        if set(fg.vertices) != set(sub):
            res.fail("C14.graph_filter_nodes", dict(flag=flag, got=sorted(fg.vertices), want=sorted(sub)))
            return res
        if set(fg.edges) != conns_among:
            res.fail("C14.graph_filter_connections", dict(flag=flag, got=sorted(map(list, fg.edges)), want=sorted(map(list, conns_among)), shadow=case["shadow"]))
            return res
        for k in fg.vertices:
            if not all(onp.array_equal(getattr(fg.vertices[k], f), getattr(cg.vertices[k], f)) for f in ("seq", "ts_start", "ts_end")):
                res.fail("C14.graph_filter_changed_values", dict(flag=flag, node=k))
                return res
        for k in fg.edges:
            if not all(onp.array_equal(getattr(fg.edges[k], f), getattr(cg.edges[k], f)) for f in ("seq_out", "seq_in", "ts_recv")):
                res.fail("C14.graph_filter_changed_values", dict(flag=flag, edge=list(k)))
                return res
        fr = exp.filter(sub, filter_connections=flag)
        for e in range(E):
            rn = fr.episodes[e].nodes
            if set(rn) != set(sub):
                res.fail("C14.record_filter_nodes", dict(flag=flag, got=sorted(rn), want=sorted(sub)))
                return res
            got_conns = {(src, n) for n, r in rn.items() for src in r.inputs}
            if got_conns != conns_among:
                res.fail("C14.record_filter_connections", dict(flag=flag, got=sorted(map(list, got_conns)), want=sorted(map(list, conns_among)), shadow=case["shadow"]))
                return res
            info_conns = {(src, n) for n, r in rn.items() for src in r.info.inputs}
            if info_conns != conns_among:
                res.fail("C14.record_filter_info_connections", dict(flag=flag, got=sorted(map(list, info_conns)), want=sorted(map(list, conns_among))))
                return res
            for n, r in rn.items():
                if not onp.array_equal(r.steps.seq, records[e].nodes[n].steps.seq) or not onp.array_equal(r.steps.ts_start, records[e].nodes[n].steps.ts_start):
                    res.fail("C14.record_filter_changed_values", dict(flag=flag, node=n))
                    return res
                for src, ir in r.inputs.items():
                    if not onp.array_equal(ir.messages.seq_in, records[e].nodes[n].inputs[src].messages.seq_in):
                        res.fail("C14.record_filter_changed_values", dict(flag=flag, node=n, src=src))
                        return res
            if not _same_graph(res, "C14.filtered_record_to_graph", fr.episodes[e].to_graph(), graphs[e].filter(sub, filter_edges=False) if False else base.Graph(
                vertices={k: v for k, v in graphs[e].vertices.items() if k in sub}, edges={k: v for k, v in graphs[e].edges.items() if k in conns_among}), prefix_only=True):
                return res
    lens = {tuple(len(g.vertices[n].seq) for n in raw["names"]) for g in graphs}
    dropped = any(any(any(d) for d in ep) for ep in case["drops"])
    unreceived = any((onp.asarray(ed.seq_in) < 0).any() for g in graphs for ed in g.edges.values())
    if dropped:
        res.label("dropped_message_mid_episode")
    if len(lens) > 1:
        res.label("ragged")
    res.nontrivial = (len(lens) > 1 or dropped or unreceived) and 0 < len(sub) < len(raw["names"])
    return res


def regressions():
    return []
