"""C20 — the exported policy computes the same action as the trained actor."""
import types

import numpy as onp
from hypothesis import strategies as st

from rexverif.common import CaseResult

ID = "C20"
TIERS = {
    "quick": dict(examples=640, shards=16, timeout_s=2400, shrink_s=180, train_per_shard=1),
    "thorough": dict(examples=6000, shards=16, timeout_s=10800, shrink_s=300, train_per_shard=3),
}
RULE = (
    "Hypothesis draws network depth 1-4, width 1-64, activation in {tanh, relu, gelu, softplus}, squash on/off, observation "
    "normalisation on/off with drawn running statistics, action bounds, observation/action dimensions, the number of parallel "
    "environments, a parameter seed (ActorCritic.init, then perturbed so that log_std and biases are non-zero), observations "
    "incl. 1e6-scale outliers, and an rng for sampling. A PPOResult is assembled exactly as ppo.train leaves it (leading "
    "NUM_ENVS axis on the action scaling, statistics in env_state.aux) so that PPOResult.policy / act_scaling / obs_scaling is "
    "the code path under test. Oracle (differential): Policy.get_action(obs) == unsquash_np(Actor.apply(params, "
    "normalise_np(obs)).mean()) with independent numpy normalise (clip((x-mean)/sqrt(var+1e-8), +-c)) and unsquash; with an "
    "rng: == the same transform of Actor.apply(...).sample(seed=rng). Thorough tier adds real (tiny) ppo.train runs. "
    "Non-trivial = depth >= 2 or width >= 8, non-zero log_std, and an observation outside [-3 sigma, 3 sigma]; distinct = hash."
)
ASSUMPTIONS = [
    "flax Dense/activations and distrax.MultivariateNormalDiag are trusted as the reference actor",
    "state-dependent std is outside the property's quantifier and not generated",
    "rtol 2e-5 / atol 1e-5 in float32",
]


@st.composite
def _case(draw, tier):
    obs_dim = draw(st.integers(1, 5))
    act_dim = draw(st.integers(1, 3))
    low = [draw(st.integers(-50, 20)) / 10.0 for _ in range(act_dim)]
    obs = []
    for _ in range(draw(st.integers(1, 4))):
        obs.append([draw(st.sampled_from([0.0, 1.0, -1e6, 1e6, 37.5])) if draw(st.integers(0, 3)) == 0 else draw(st.integers(-500, 500)) / 100.0 for _ in range(obs_dim)])
    return dict(
        what="synthetic",
        obs_dim=obs_dim,
        act_dim=act_dim,
        depth=draw(st.integers(1, 4)),
        width=draw(st.sampled_from([1, 2, 3, 8, 16, 64])),
        activation=draw(st.sampled_from(["tanh", "relu", "gelu", "softplus"])),
        squash=draw(st.booleans()),
        normalize=draw(st.booleans()),
        clip=draw(st.sampled_from([10.0, 5.0, 1.0])),
        mean=[draw(st.integers(-300, 300)) / 100.0 for _ in range(obs_dim)],
        var=[draw(st.sampled_from([1e-6, 0.01, 1.0, 4.0, 100.0])) for _ in range(obs_dim)],
        low=low,
        high=[round(l + draw(st.sampled_from([0.1, 1.0, 2.0, 9.0])), 3) for l in low],
        num_envs=draw(st.integers(1, 4)),
        seed=draw(st.integers(0, 2**31 - 1)),
        log_std=[draw(st.integers(-20, 10)) / 10.0 for _ in range(act_dim)],
        bias_shift=draw(st.integers(-10, 10)) / 10.0,
        obs=obs,
        sample_seed=draw(st.integers(0, 2**31 - 1)),
        batch=draw(st.sampled_from([0, 0, 2])),  # leading axis as left by jax.vmap(train) over seeds
    )


def strategy(tier):
    return _case(tier)


class _Train:
    @staticmethod
    def strategy(tier):
        return st.fixed_dictionaries(dict(
            what=st.just("train"), seed=st.integers(0, 1000), activation=st.sampled_from(["tanh", "relu", "gelu", "softplus"]),
            depth=st.integers(1, 3), width=st.sampled_from([4, 16]), squash=st.booleans(), normalize=st.booleans()))

    @staticmethod
    def check(case):
        return check(case)


def extra(tier, seed, shard, nshards, col):
    from rexverif import common

    n = TIERS[tier]["train_per_shard"]
    if tier == "quick" and shard % 4 != 0:
        n = 0  # four real trainings are enough for the every-change tier
    if n:
        common.run_hypothesis(_Train, tier, seed * 1000 + 300 + shard, n, col)


def _np_normalize(x, mean, var, clip):
    return onp.clip((x - mean) / onp.sqrt(var + 1e-8), -clip, clip)


def _np_unsquash(x, low, high, squash):
    if squash:
        return 0.5 * (onp.tanh(x) + 1.0) * (high - low) + low
    return onp.clip(x, low, high)


def _judge(res, policy, actor, actor_params, obs_list, obs_scaling, low, high, squash, sample_seed, tag):
    import jax
    import jax.numpy as jnp

    for obs in obs_list:
        o = onp.asarray(obs, dtype=onp.float32)
        if obs_scaling is not None:
            mean, var, clip = (onp.asarray(obs_scaling[k], dtype=onp.float64) for k in ("mean", "var", "clip"))
            n_o = _np_normalize(o.astype(onp.float64), mean, var, clip).astype(onp.float32)
        else:
            n_o = o
        pi = actor.apply({"params": actor_params}, jnp.asarray(n_o))
        want = _np_unsquash(onp.asarray(pi.mean(), dtype=onp.float64), low, high, squash)
        got = onp.asarray(policy.get_action(jnp.asarray(o)), dtype=onp.float64)
        if got.shape != want.shape:
            res.fail("C20.action_shape", dict(tag=tag, got=got.shape, want=want.shape))
            return False
        if not onp.allclose(got, want, rtol=2e-5, atol=1e-5 * (1 + float(onp.abs(high - low).max()))):
            res.fail("C20.deterministic_action_differs_from_actor", dict(tag=tag, obs=o.tolist(), got=got.tolist(), want=want.tolist(), squash=squash, normalized=obs_scaling is not None))
            return False
        if not ((got >= low - 1e-5).all() and (got <= high + 1e-5).all()):
            res.fail("C20.action_outside_bounds", dict(tag=tag, got=got.tolist(), low=low.tolist(), high=high.tolist()))
            return False
        key = jax.random.PRNGKey(sample_seed)
        want_s = _np_unsquash(onp.asarray(pi.sample(seed=key), dtype=onp.float64), low, high, squash)
        got_s = onp.asarray(policy.get_action(jnp.asarray(o), rng=key), dtype=onp.float64)
        if not onp.allclose(got_s, want_s, rtol=2e-5, atol=1e-5 * (1 + float(onp.abs(high - low).max()))):
            res.fail("C20.sampled_action_differs_from_actor_gaussian", dict(tag=tag, obs=o.tolist(), got=got_s.tolist(), want=want_s.tolist()))
            return False
    return True


def check(case) -> CaseResult:
    import jax
    import jax.numpy as jnp
    from flax.core import FrozenDict, unfreeze

    from rex import base
    from rex.actor_critic import Actor, ActorCritic, Critic
    from rex.ppo import Config, PPOResult, RunnerState
    from rex.rl import NormalizeVec, SquashState

    res = CaseResult()
    if case["what"] == "train":
        return _check_train(case, res)
    res.label(case["activation"], f"depth_{case['depth']}", "squash" if case["squash"] else "clip", "norm" if case["normalize"] else "raw")
    actor = Actor(num_output_units=case["act_dim"], num_hidden_units=case["width"], num_hidden_layers=case["depth"], hidden_activation=case["activation"],
                  output_activation="gaussian", state_independent_std=True)
    critic = Critic(num_hidden_units=case["width"], num_hidden_layers=case["depth"], hidden_activation=case["activation"])
    ac = ActorCritic.create(actor, critic)
    params = unfreeze(ac.init(jax.random.PRNGKey(case["seed"]), jnp.zeros((case["obs_dim"],))))
    ap = params["params"]["actor"]
    ap["log_std"] = jnp.asarray(case["log_std"], dtype=jnp.float32)
    for k in ap:
        if k.startswith("Dense"):
            ap[k]["bias"] = ap[k]["bias"] + jnp.float32(case["bias_shift"]) * (1 + jnp.arange(ap[k]["bias"].shape[0], dtype=jnp.float32) % 3)
    low, high = onp.asarray(case["low"], dtype=onp.float32), onp.asarray(case["high"], dtype=onp.float32)
    N = case["num_envs"]
    aux = {"act_scaling": SquashState(low=jnp.tile(low[None], (N, 1)), high=jnp.tile(high[None], (N, 1)), squash=case["squash"])}
    scaling = None
    if case["normalize"]:
        aux["norm_obs"] = NormalizeVec(mean=jnp.asarray(case["mean"], jnp.float32), var=jnp.asarray(case["var"], jnp.float32), count=100.0, return_val=None, clip=case["clip"])
        scaling = dict(mean=onp.float32(case["mean"]), var=onp.float32(case["var"]), clip=case["clip"])
    env_state = base.GraphState(aux=FrozenDict(aux))
    cfg = Config(NUM_ENVS=N, NUM_HIDDEN_LAYERS=case["depth"], NUM_HIDDEN_UNITS=case["width"], HIDDEN_ACTIVATION=case["activation"], SQUASH=case["squash"],
                 NORMALIZE_ENV=case["normalize"], STATE_INDEPENDENT_STD=True)
    result = PPOResult(config=cfg, runner_state=RunnerState(train_state=types.SimpleNamespace(params=params), env_state=env_state, last_obs=None, rng=None), metrics={})
    policy = result.policy
    if not _judge(res, policy, actor, ap, case["obs"], scaling, low.astype(onp.float64), high.astype(onp.float64), case["squash"], case["sample_seed"], "synthetic"):
        return res
    if case.get("batch"):
        # results of jax.vmap(train) over seeds carry a leading axis on every array; the exported policy is then vmapped too
        Bn = case["batch"]
        stack = lambda t: jax.tree_util.tree_map(lambda x: jnp.stack([x + 0.01 * i for i in range(Bn)]) if jnp.issubdtype(jnp.asarray(x).dtype, jnp.floating) else jnp.stack([x] * Bn), t)
        params_b = stack(params)
        aux_b = {"act_scaling": SquashState(low=jnp.stack([jnp.tile(low[None], (N, 1))] * Bn), high=jnp.stack([jnp.tile(high[None], (N, 1))] * Bn), squash=case["squash"])}
        if case["normalize"]:
            aux_b["norm_obs"] = NormalizeVec(mean=jnp.stack([jnp.asarray(case["mean"], jnp.float32)] * Bn), var=jnp.stack([jnp.asarray(case["var"], jnp.float32)] * Bn),
                                             count=jnp.full((Bn,), 100.0), return_val=None, clip=jnp.full((Bn,), case["clip"]))
        result_b = PPOResult(config=cfg, runner_state=RunnerState(train_state=types.SimpleNamespace(params=params_b), env_state=base.GraphState(aux=FrozenDict(aux_b)), last_obs=None, rng=None), metrics={})
        pol_b = result_b.policy
        for ob in case["obs"][:2]:
            o = jnp.asarray(ob, dtype=jnp.float32)
            try:
                got = onp.asarray(jax.vmap(lambda p_: p_.get_action(o))(pol_b), dtype=onp.float64)
            except Exception as e:
                res.fail("C20.batched_policy_not_usable", dict(err=f"{type(e).__name__}: {str(e)[:160]}"))
                return res
            for i in range(Bn):
                ap_i = jax.tree_util.tree_map(lambda x: x[i], params_b)["params"]["actor"]
                n_o = _np_normalize(onp.asarray(o, onp.float64), onp.float64(case["mean"]), onp.float64(case["var"]), case["clip"]).astype(onp.float32) if case["normalize"] else onp.asarray(o)
                want = _np_unsquash(onp.asarray(actor.apply({"params": ap_i}, jnp.asarray(n_o)).mean(), dtype=onp.float64), low.astype(onp.float64), high.astype(onp.float64), case["squash"])
                if got[i].shape != want.shape or not onp.allclose(got[i], want, rtol=2e-5, atol=1e-5 * (1 + float(onp.abs(high - low).max()))):
                    res.fail("C20.batched_policy_differs_from_actor", dict(lane=i, got=got[i].tolist(), want=want.tolist()))
                    return res
        res.label("batched_over_seeds")
    far = any(abs(o - m) > 3 * (v**0.5) for ob in case["obs"] for o, m, v in zip(ob, case["mean"], case["var"])) if case["normalize"] else any(abs(o) > 3 for ob in case["obs"] for o in ob)
    res.nontrivial = (case["depth"] >= 2 or case["width"] >= 8) and any(x != 0 for x in case["log_std"]) and far
    return res


def _check_train(case, res):
    import jax
    import jax.numpy as jnp

    from rex import ppo
    from rex.actor_critic import Actor
    from rexverif.props.c19 import _real_env

    res.label("real_training", case["activation"])
    R = _real_env()
    cfg = ppo.Config(LR=1e-3, NUM_ENVS=4, NUM_STEPS=8, TOTAL_TIMESTEPS=4 * 8 * 6, UPDATE_EPOCHS=2, NUM_MINIBATCHES=2, NUM_HIDDEN_LAYERS=case["depth"],
                     NUM_HIDDEN_UNITS=case["width"], HIDDEN_ACTIVATION=case["activation"], SQUASH=case["squash"], NORMALIZE_ENV=case["normalize"],
                     STATE_INDEPENDENT_STD=True, NUM_EVAL_ENVS=2, EVAL_FREQ=1, VERBOSE=False, DEBUG=False, FIXED_INIT=True, OFFSET_STEP=False, ANNEAL_LR=False)
    result = jax.jit(lambda k: ppo.train(R["env"], cfg, k))(jax.random.PRNGKey(case["seed"]))
    policy = result.policy
    ap = result.runner_state.train_state.params["params"]["actor"]
    actor = Actor(num_output_units=1, num_hidden_units=case["width"], num_hidden_layers=case["depth"], hidden_activation=case["activation"],
                  output_activation="gaussian", state_independent_std=True)
    scaling = None
    if case["normalize"]:
        ns = result.obs_scaling
        scaling = dict(mean=onp.asarray(ns.mean), var=onp.asarray(ns.var), clip=float(ns.clip))
    low, high = onp.array([-1.0]), onp.array([1.0])
    obs = [[0.0], [123456.0], [-7.5e5], [float(result.runner_state.last_obs[0][0])]]
    if _judge(res, policy, actor, ap, obs, scaling, low, high, case["squash"], case["seed"], "trained"):
        res.nontrivial = True
    return res


def regressions():
    return []
