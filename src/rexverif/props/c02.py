"""C02 — simulated-clock episodes are deterministic across thread schedules and speed."""
import threading
import time

import numpy as onp
from hypothesis import strategies as st

from rexverif import asynccase, sysgen
from rexverif.asyncrun import AsyncRun, Hang
from rexverif.common import CaseResult

ID = "C02"
TIERS = {
    "quick": dict(examples=48, shards=16, timeout_s=2400, shrink_s=180),
    "thorough": dict(examples=320, shards=16, timeout_s=10800, shrink_s=300),
}
RULE = (
    "Hypothesis draws a node system (as C03, simulated clock) and a set of variants of one episode from the same initial "
    "graph state: baseline run() fast-as-possible; reset()/step(); throttled real-time factors (1, 5, 20 or 100); and 2-3 "
    "pause plans executed through the REX_VERIF yield points (sleep 1-40 ms at the n-th / every k-th task submission or task "
    "start of a chosen node thread or connection thread - biased towards starving the sender of a non-blocking connection or "
    "the receiver's connection thread). Oracle (metamorphic, bitwise): every variant's record (all step fields incl. "
    "scheduling terms, delays, rng, state, inputs, outputs; all message fields) and the sequence of StepStates returned to "
    "the user equal the baseline's on the common prefix. Non-trivial = the system has a non-blocking connection with a "
    "stochastic delay or a stochastic sender, and some variant was actually perturbed (hook pauses > 0 or throttled); "
    "distinct = hash of the case."
)
ASSUMPTIONS = [
    "schedules are perturbed at task boundaries only (submit / task start); interleavings inside a task body are left to the OS",
    "supported class of DESIGN §2.1; hangs are counted and left to C05",
    "zero hook hits over a whole run is a harness error (exit 2): the hooks must be present",
]

POINTS = ["task.start", "node.submit", "conn.submit"]


@st.composite
def _case(draw, tier):
    spec = draw(sysgen.system_spec(max_eps=1, min_steps=3, max_steps=8))
    spec["carry"] = False
    owners = [n["name"] for n in spec["nodes"]] + [f"{c['dst']}/{c['src']}" for c in spec["conns"]]
    nb = [c for c in spec["conns"] if not c["blocking"]]
    plans = []
    for _ in range(draw(st.integers(2, 3))):
        plan = []
        for _ in range(draw(st.integers(1, 3))):
            if nb and draw(st.booleans()):
                c = draw(st.sampled_from(nb))
                owner = draw(st.sampled_from([c["src"], f"{c['dst']}/{c['src']}", c["dst"]]))  # starve sender / connection thread / receiver
            else:
                owner = draw(st.sampled_from(owners))
            plan.append(dict(owner=owner, point=draw(st.sampled_from(POINTS)), every=draw(st.sampled_from([1, 1, 2, 3])), first_n=draw(st.integers(1, 12)),
                             sleep_ms=draw(st.sampled_from([1, 3, 10, 25, 40]))))
        plans.append(plan)
    return dict(spec=spec, plans=plans, rtf=draw(st.sampled_from([1.0, 5.0, 20.0, 100.0])))


def strategy(tier):
    return _case(tier)


class PausePlan:
    def __init__(self, plan):
        self.plan = plan
        self.counts = {}
        self.lock = threading.Lock()
        self.pauses = 0
        self.hits = 0

    def __call__(self, point, owner=None, fn=None, **kw):
        self.hits += 1
        for i, p in enumerate(self.plan):
            if p["point"] == point and p["owner"] == owner:
                with self.lock:
                    c = self.counts.get(i, 0)
                    self.counts[i] = c + 1
                if c % p["every"] == 0 and c // p["every"] < p["first_n"]:
                    self.pauses += 1
                    time.sleep(p["sleep_ms"] / 1000.0)


def _flatten(tree):
    import jax

    return [(jax.tree_util.keystr(p), onp.asarray(x)) for p, x in jax.tree_util.tree_flatten_with_path(tree)[0]]


def compare_records(res, clause, base_rec, rec, variant):
    for name, nr in base_rec.nodes.items():
        other = rec.nodes[name]
        K = min(len(onp.atleast_1d(nr.steps.seq)), len(onp.atleast_1d(other.steps.seq)))
        a, b = _flatten(nr.steps), _flatten(other.steps)
        if [p for p, _ in a] != [p for p, _ in b]:
            res.fail(clause + ".record_structure", dict(node=name, variant=variant))
            return False
        for (p, x), (_, y) in zip(a, b):
            k = min(K, len(x), len(y)) if x.ndim and y.ndim else 0
            if x.ndim == 0 or p in (".eps", ".sent.eps"):
                continue  # the episode counter of the AsyncGraph object identifies the episode, it is not part of its content
            xs, ys = x[:k], y[:k]
            same = onp.array_equal(xs, ys) or (xs.dtype.kind == "f" and onp.array_equal(onp.isnan(xs), onp.isnan(ys)) and onp.array_equal(onp.nan_to_num(xs), onp.nan_to_num(ys)))
            if not same:
                idx = int(onp.argmax((xs != ys).reshape(k, -1).any(axis=1)))
                res.fail(clause + ".step_record_differs", dict(node=name, field=p, step=idx, baseline=xs[idx], variant_value=ys[idx], variant=variant))
                return False
        for src, ir in nr.inputs.items():
            ma, mb = ir.messages, other.inputs[src].messages
            M = min(len(onp.atleast_1d(ma.seq_out)), len(onp.atleast_1d(mb.seq_out)))
            for f in ("seq_out", "seq_in", "ts_sent", "ts_recv", "delay"):
                xa, xb = onp.atleast_1d(getattr(ma, f))[:M], onp.atleast_1d(getattr(mb, f))[:M]
                if not onp.array_equal(xa, xb):
                    idx = int(onp.argmax(xa != xb))
                    res.fail(clause + ".message_record_differs", dict(conn=[src, name], field=f, i=idx, baseline=xa[idx], variant_value=xb[idx], variant=variant))
                    return False
    return True


def compare_outs(res, clause, base_outs, outs, variant):
    import jax

    for i, (a, b) in enumerate(zip(base_outs, outs)):
        la, lb = jax.tree_util.tree_leaves(a), jax.tree_util.tree_leaves(b)
        if len(la) != len(lb) or not all(onp.array_equal(onp.asarray(x), onp.asarray(y)) for x, y in zip(la, lb)):
            res.fail(clause + ".observed_step_state_differs", dict(index=i, variant=variant))
            return False
    return True


HOOK_HITS = [0]


def check(case) -> CaseResult:
    import rex.asynchronous as ra

    res = CaseResult()
    spec = case["spec"]
    res.label("cls_" + spec["cls"])
    if asynccase.CONTAMINATED[0]:
        res.rejected = "skipped: an earlier case of this worker hung"
        return res
    n = spec["episodes"][0]
    run = run_rt = None
    perturbed = False
    try:
        ra._verif_hook = None
        run = AsyncRun(spec)
        outs0, rec0 = run.episode_run(run.start_state(0), n, budget_s=30.0)
        # (b) reset / step
        outs1, rec1 = run.episode_step(run.start_state(0), n, budget_s=30.0)
        if not compare_records(res, "C02", rec0, rec1, "reset_step"):
            return res
        # run() returns the supervisor's step state after its step i, reset()/step() the one before step i+1: same rng and state
        for i in range(min(len(outs0), len(outs1) - 1)):
            a, b = outs0[i], outs1[i + 1]
            if not (onp.array_equal(a.rng, b.rng) and int(a.state.dig) == int(b.state.dig) and int(a.state.cnt) == int(b.state.cnt)):
                res.fail("C02.observed_step_state_differs", dict(index=i, variant="reset_step"))
                return res
        # (d) pause plans through the yield points
        for pi, plan in enumerate(case["plans"]):
            hook = PausePlan(plan)
            ra._verif_hook = hook
            try:
                t0 = time.time()
                outs_p, rec_p = run.episode_run(run.start_state(0), n, budget_s=60.0)
            finally:
                ra._verif_hook = None
            HOOK_HITS[0] += hook.hits
            res.count("hook_hits", hook.hits)
            res.count("pauses", hook.pauses)
            if hook.pauses:
                perturbed = True
            if not compare_records(res, "C02", rec0, rec_p, f"pause_plan_{pi}") or not compare_outs(res, "C02", outs0, outs_p, f"pause_plan_{pi}"):
                res.failures[-1][1]["plan"] = plan
                return res
        run.close()
        run = None
        # (c) throttled (real-time factor); with a pause plan that starves a sender when rtf == 1
        hook = PausePlan(case["plans"][0])
        ra._verif_hook = hook  # must be installed before tasks are submitted
        try:
            run_rt = AsyncRun(spec, rtf=case["rtf"])
            t0 = time.time()
            outs_r, rec_r = run_rt.episode_run(run_rt.start_state(0), n, budget_s=90.0)
        finally:
            ra._verif_hook = None
        HOOK_HITS[0] += hook.hits
        res.count("hook_hits", hook.hits)
        res.label(f"rtf_{case['rtf']}")
        perturbed = True
        if not compare_records(res, "C02", rec0, rec_r, f"rtf_{case['rtf']}") or not compare_outs(res, "C02", outs0, outs_r, f"rtf_{case['rtf']}"):
            return res
        stochastic = lambda d: d["k"] in ("normal", "mix") and not (d["k"] == "normal" and d["sigma"] == 0)
        nb_stoch = any((not c["blocking"]) and (stochastic(c["delay"]) or stochastic(next(nd for nd in spec["nodes"] if nd["name"] == c["src"])["delay"])) for c in spec["conns"])
        if nb_stoch:
            res.label("nonblocking_with_stochastic_timing")
        res.nontrivial = nb_stoch and perturbed
    except Hang:
        res.rejected = "hang"
        asynccase.CONTAMINATED[0] = True
    except TypeError as ex:
        if "tree_map() missing 1 required positional argument" in str(ex):
            res.rejected = "get_record raises on a node without any recorded row"
        else:
            raise
    finally:
        ra._verif_hook = None
        for r in (run, run_rt):
            if r is not None:
                r.close()
    return res


def extra(tier, seed, shard, nshards, col):
    # the hooks must exist: a refactor that drops them must not turn this check into a silent pass
    if col.evaluations > 0 and not col.rejected.get("hang") and HOOK_HITS[0] == 0 and any(k.startswith("rtf_") for k in col.classes):
        col.errors.append("REX_VERIF hooks were never hit: rex/asynchronous.py lost its yield points or REX_VERIF is not set")


def regressions():
    return []
