"""C01 — compiled replay reproduces the recorded asynchronous execution step for step."""
import functools

import numpy as onp
from hypothesis import strategies as st

from rexverif import asynccase, compiledrun, sysgen
from rexverif.asyncrun import AsyncRun, Hang
from rexverif.common import CaseResult

ID = "C01"
TIERS = {
    "quick": dict(examples=48, shards=16, timeout_s=2400, shrink_s=180),
    "thorough": dict(examples=320, shards=16, timeout_s=10800, shrink_s=300),
}
RULE = (
    "Hypothesis draws a node system (as C03/C04: topology, rates, windows, blocking/skip/jitter/advance/scheduling, light/"
    "heavy/tie/zero delays incl. normal and mixture distributions, per-node jit), a seed, 1-3 episodes of ragged length and "
    "(supergraph mode, prune) combinations (quick: 2 sampled, thorough: all 6). The episodes are run on the threaded runtime "
    "with recording on, converted with ExperimentRecord.to_graph(), compiled, started from the same per-node rng/params/state "
    "and rolled out under jit; the probe nodes' host-side traces of both runs are compared per (node, episode, seq): start "
    "time, rng, state, every window entry (seq with negatives normalised, send/receive time, payload), output, next state. "
    "Non-trivial = at least 10 compared steps and at least one compared step saw a real (seq >= 0) message; distinct = hash of the drawn case."
)
ASSUMPTIONS = [
    "supported class of DESIGN §2.1; a hanging lifecycle call is counted and left to C05",
    "both runtimes are started from the same per-node rng/params/state by overwriting those fields of Graph.init()'s result",
    "the compiled run is driven for graph.max_steps steps (the documented horizon); sequence numbers of unfilled window entries are normalised (any negative == default)",
    "episodes whose record cannot be fetched (a connection without any consumed message) are not judged",
]


@st.composite
def _case(draw, tier):
    spec = draw(sysgen.system_spec(max_eps=3, min_steps=3, max_steps=10))
    all_combos = [(m, p) for m in compiledrun.MODES for p in (True, False)]
    if tier == "thorough":
        combos = all_combos
    else:
        combos = list(draw(st.permutations(all_combos)))[:2]
    return dict(spec=spec, combos=[list(c) for c in combos])


def strategy(tier):
    return _case(tier)


FIELDS = ("ts", "rng", "cnt", "dig", "c", "out", "new_dig", "new_rng")


def compare_rows(res, key, a, b, clause_prefix="C01."):
    """a: threaded row, b: compiled row."""
    for f in FIELDS:
        if not onp.array_equal(onp.asarray(a[f]), onp.asarray(b[f])):
            if f == "ts" and onp.asarray(a[f]).tobytes() == onp.asarray(b[f]).tobytes():
                continue
            res.fail(clause_prefix + "step_" + f + "_differs", dict(key=list(key), threaded=a[f], compiled=b[f]))
            return False
    if sorted(a["ins"]) != sorted(b["ins"]):
        res.fail(clause_prefix + "input_names_differ", dict(key=list(key)))
        return False
    for name in a["ins"]:
        for f in ("seq", "ts_sent", "ts_recv", "a"):
            x, y = onp.asarray(a["ins"][name][f]), onp.asarray(b["ins"][name][f])
            if x.shape != y.shape or not onp.array_equal(x, y):
                res.fail(clause_prefix + "window_" + f + "_differs", dict(key=list(key), input=name, threaded=x, compiled=y))
                return False
    return True


def check(case) -> CaseResult:
    import jax

    from rex.base import ExperimentRecord

    res = CaseResult()
    spec = case["spec"]
    run = None
    res.label("cls_" + spec["cls"])
    if asynccase.CONTAMINATED[0]:
        res.rejected = "skipped: an earlier case of this worker hung"
        return res
    try:
        run = AsyncRun(spec)
        recs = []
        for e, n in enumerate(spec["episodes"]):
            gs = run.start_state(e)
            _, rec = run.episode_run(gs, n, budget_s=30.0)
            recs.append(rec)
        A = run.trace.by_key()
        run.trace.clear()
    except Hang as h:
        res.rejected = "hang"
        asynccase.CONTAMINATED[0] = True
        if run is not None:
            run.close()
        return res
    except TypeError as ex:
        if "tree_map() missing 1 required positional argument" in str(ex):
            res.rejected = "get_record raises on a connection/node without any recorded row"
            run.close()
            return res
        raise
    try:
        dup = [k for k, v in A.items() if len(v) > 1]
        if dup:
            res.fail("C01.threaded_step_executed_twice", dict(keys=[list(k) for k in dup[:5]]))
            return res
        cg = ExperimentRecord(episodes=recs).to_graph()
        n_cmp, saw_real = 0, False
        for mode, prune in case["combos"]:
            res.label(f"mode_{mode}", f"prune_{prune}")
            try:
                graph = compiledrun.compile_graph(run.nodes, spec["supervisor"], cg, mode=mode, prune=prune)
            except ValueError as ex:
                if "There are no nodes in the partition" in str(ex):
                    res.label("rejected_empty_partition")  # documented clean rejection: the supervisor depends on nothing
                    continue
                raise
            N = int(graph.max_steps)
            if N < 1:
                res.label("empty_horizon")
                continue
            if N < min(spec["episodes"]):
                res.label("horizon_shorter_than_recorded")
            roll = jax.jit(functools.partial(graph.rollout, max_steps=N, carry_only=True))
            for e in range(len(spec["episodes"])):
                gs = compiledrun.init_like(graph, run.starts[e], eps=e)
                out = roll(gs)
                jax.block_until_ready(out.step)
                B = run.trace.by_key()
                run.trace.clear()
                want = compiledrun.scheduled_vertices(graph, e, N)
                for (kind, seq), where in want.items():
                    if (kind, e, seq) not in B:
                        res.fail("C01.scheduled_step_not_executed", dict(kind=kind, eps=e, seq=seq, slot=where[0][0], partition=where[0][1], mode=mode, prune=prune))
                        return res
                for key, rows in B.items():
                    if len(rows) != 1:
                        res.fail("C01.compiled_step_executed_twice", dict(key=list(key), mode=mode, prune=prune))
                        return res
                    if key not in A:
                        res.fail("C01.compiled_step_unknown_to_threaded_run", dict(key=list(key), mode=mode, prune=prune))
                        return res
                    if not compare_rows(res, key, A[key][0], rows[0]):
                        res.failures[-1][1].update(mode=mode, prune=prune) if isinstance(res.failures[-1][1], dict) else None
                        return res
                    n_cmp += 1
                    for i in rows[0]["ins"].values():
                        if (onp.asarray(i["seq"]) >= 0).any():
                            saw_real = True
                        if (onp.asarray(i["seq"]) < 0).any():
                            res.label("window_not_yet_filled")
        res.count("compared_steps", n_cmp)
        if len(set(spec["episodes"])) > 1:
            res.label("ragged_episodes")
        if any(c["blocking"] for c in spec["conns"]):
            res.label("has_blocking")
        res.nontrivial = n_cmp >= 10 and saw_real
    finally:
        run.close()
    return res


def regressions():
    return []
