"""C01 — compiled replay reproduces the recorded asynchronous execution step for step."""
import functools

import numpy as onp
from hypothesis import strategies as st

from rexverif import asynccase, compiledrun, sysgen
from rexverif.asyncrun import AsyncRun, Hang
from rexverif.common import CaseResult

ID = "C01"
TIERS = {
    "quick": dict(examples=48, shards=16, timeout_s=2400, shrink_s=180),
    "thorough": dict(examples=320, shards=16, timeout_s=10800, shrink_s=300),
}
RULE = (
    "Hypothesis draws a node system (as C03/C04: topology, rates, windows, blocking/skip/jitter/advance/scheduling, light/"
    "heavy/tie/zero delays incl. normal and mixture distributions, per-node jit), a seed, 1-3 episodes of ragged length and "
    "(supergraph mode, prune) combinations (quick: 2 sampled, thorough: all 6). The episodes are run on the threaded runtime "
    "with recording on, converted with ExperimentRecord.to_graph(), compiled, started from the same per-node rng/params/state "
    "and rolled out under jit; the probe nodes' host-side traces of both runs are compared per (node, episode, seq): start "
    "time, rng, state, every window entry (seq with negatives normalised, send/receive time, payload), output, next state. "
    "Non-trivial = at least 10 compared steps and at least one compared step saw a real (seq >= 0) message; distinct = hash of the drawn case."
)
ASSUMPTIONS = [
    "supported class of DESIGN §2.1; a hanging lifecycle call is counted and left to C05",
    "both runtimes are started from the same per-node rng/params/state by overwriting those fields of Graph.init()'s result",
    "the compiled run is driven for graph.max_steps steps (the documented horizon); sequence numbers of unfilled window entries are normalised (any negative == default)",
    "episodes whose record cannot be fetched (a connection without any consumed message) are not judged",
]


@st.composite
def _case(draw, tier):
    spec = draw(sysgen.system_spec(max_eps=3, min_steps=3, max_steps=10))
    # trainable (zero-order-hold) delays on some non-blocking LATEST connections: the threaded runtime simulates the
    # constant delay, the compiled replay has to pick the same messages out of the extended window (apply_delay)
    for c in spec["conns"]:
        if not c["blocking"] and c["jitter"] == "LATEST" and draw(st.integers(0, 3)) == 0:
            period = 1.0 / next(n["rate"] for n in spec["nodes"] if n["name"] == c["src"])
            if spec["cls"] == "tie":
                continue  # exact float32 ties of recomputed arrivals are C10/C11 territory; a fixed tie scenario is in regressions()
            lo = round(draw(st.integers(0, 100)) / 100.0 * period + 0.00013, 5)  # off the 10 ms / period grid: no exact ties
            hi = round(lo + draw(st.integers(10, 200)) / 100.0 * period, 5)
            d = min(max(round(lo + draw(st.integers(0, 100)) / 100.0 * (hi - lo), 6), lo), hi)
            c["delay"] = {"k": "train", "min": lo, "max": hi, "d": d, "interp": "zoh"}
            # With the default expected delay (= d) the receiver's phase is the arrival time of the first message: an exact
            # tie, where the compiled float32 arrival may round above the step start (known finding, kept as a fixed
            # regression scenario). Generated trainable connections get an explicit expected delay off that tie, so the
            # search goes on behind the finding (excluded by construction; ties of recomputed arrivals are C10/C11's domain).
            c["exp_delay"] = round(d + 0.00037, 6)
    sysgen.make_supported(spec)
    all_combos = [(m, p) for m in compiledrun.MODES for p in (True, False)]
    if tier == "thorough":
        combos = all_combos
    else:
        combos = list(draw(st.permutations(all_combos)))[:2]
    return dict(spec=spec, combos=[list(c) for c in combos])


def strategy(tier):
    return _case(tier)


FIELDS = ("ts", "rng", "cnt", "dig", "c", "out", "new_dig", "new_rng")


def compare_rows(res, key, a, b, clause_prefix="C01.", recv_tol_inputs=()):
    """a: threaded row, b: compiled row. recv_tol_inputs: inputs whose receive time the compiled runtime recomputes
    (trainable delays: float32 ts_sent + d instead of the recorded, us-rounded arrival): compared within 2 us."""
    if sorted(a["ins"]) != sorted(b["ins"]):
        res.fail(clause_prefix + "input_names_differ", dict(key=list(key)))
        return False
    for name in a["ins"]:
        for f in ("seq", "ts_sent", "ts_recv", "a"):
            x, y = onp.asarray(a["ins"][name][f]), onp.asarray(b["ins"][name][f])
            if f == "ts_recv" and name in recv_tol_inputs and x.shape == y.shape and onp.allclose(x, y, rtol=0, atol=2e-6):
                continue
            if x.shape != y.shape or not onp.array_equal(x, y):
                clause = clause_prefix + "window_" + f + "_differs"
                tie = False
                if name in recv_tol_inputs:
                    # the threaded step consumed a message that arrived exactly at its start; the compiled runtime recomputes
                    # the arrival as float32(ts_sent + d) and may find it (one ulp) later
                    recv = onp.asarray(a["ins"][name]["ts_recv"], dtype=onp.float32)
                    sq = onp.asarray(a["ins"][name]["seq"])
                    tie = bool(((sq >= 0) & (recv == onp.float32(a["ts"]))).any())
                if tie:
                    clause += "@trainable_arrival_tie"
                res.fail(clause, dict(key=list(key), input=name, threaded=x, compiled=y, step_ts=float(a["ts"]), trainable_arrival_tie=tie))
                return False
    for f in FIELDS:
        if not onp.array_equal(onp.asarray(a[f]), onp.asarray(b[f])):
            if f == "ts" and onp.asarray(a[f]).tobytes() == onp.asarray(b[f]).tobytes():
                continue
            res.fail(clause_prefix + "step_" + f + "_differs", dict(key=list(key), threaded=a[f], compiled=b[f]))
            return False
    return True


def check(case) -> CaseResult:
    import jax

    from rex.base import ExperimentRecord

    res = CaseResult()
    spec = case["spec"]
    run = None
    res.label("cls_" + spec["cls"])
    if asynccase.CONTAMINATED[0]:
        res.rejected = "skipped: an earlier case of this worker hung"
        return res
    try:
        trainable_inputs = {}
        for c in spec["conns"]:
            if c["delay"]["k"] == "train":
                trainable_inputs.setdefault(c["dst"], set()).add(c.get("name") or c["src"])
        node_cls = None
        if trainable_inputs:
            from rexverif.probes import ProbeNode

            class node_cls(ProbeNode):  # receive times of trainable inputs are recomputed in float32 by the compiled runtime
                digest_ts_recv = False

            res.label("has_trainable")
        run = AsyncRun(spec, node_cls=node_cls)
        recs = []
        for e, n in enumerate(spec["episodes"]):
            gs = run.start_state(e)
            _, rec = run.episode_run(gs, n, budget_s=30.0)
            recs.append(rec)
        A = run.trace.by_key()
        run.trace.clear()
    except Hang as h:
        res.rejected = "hang"
        asynccase.CONTAMINATED[0] = True
        if run is not None:
            run.close()
        return res
    except TypeError as ex:
        if "tree_map() missing 1 required positional argument" in str(ex):
            res.rejected = "get_record raises on a connection/node without any recorded row"
            run.close()
            return res
        raise
    try:
        dup = [k for k, v in A.items() if len(v) > 1]
        if dup:
            res.fail("C01.threaded_step_executed_twice", dict(keys=[list(k) for k in dup[:5]]))
            return res
        cg = ExperimentRecord(episodes=recs).to_graph()
        n_cmp, saw_real = 0, False
        for mode, prune in case["combos"]:
            res.label(f"mode_{mode}", f"prune_{prune}")
            try:
                graph = compiledrun.compile_graph(run.nodes, spec["supervisor"], cg, mode=mode, prune=prune)
            except ValueError as ex:
                if "There are no nodes in the partition" in str(ex):
                    res.label("rejected_empty_partition")  # documented clean rejection: the supervisor depends on nothing
                    continue
                raise
            N = int(graph.max_steps)
            if N < 1:
                res.label("empty_horizon")
                continue
            if N < min(spec["episodes"]):
                res.label("horizon_shorter_than_recorded")
            roll = jax.jit(functools.partial(graph.rollout, max_steps=N, carry_only=True))
            for e in range(len(spec["episodes"])):
                gs = compiledrun.init_like(graph, run.starts[e], eps=e)
                out = roll(gs)
                jax.block_until_ready(out.step)
                B = run.trace.by_key()
                run.trace.clear()
                want = compiledrun.scheduled_vertices(graph, e, N)
                for (kind, seq), where in want.items():
                    if (kind, e, seq) not in B:
                        res.fail("C01.scheduled_step_not_executed", dict(kind=kind, eps=e, seq=seq, slot=where[0][0], partition=where[0][1], mode=mode, prune=prune))
                        return res
                for key, rows in sorted(B.items(), key=lambda kv: (float(kv[1][0]["ts"]), kv[0])):  # earliest step first: root cause before its consequences
                    if len(rows) != 1:
                        res.fail("C01.compiled_step_executed_twice", dict(key=list(key), mode=mode, prune=prune))
                        return res
                    if key not in A:
                        res.fail("C01.compiled_step_unknown_to_threaded_run", dict(key=list(key), mode=mode, prune=prune))
                        return res
                    if not compare_rows(res, key, A[key][0], rows[0], recv_tol_inputs=trainable_inputs.get(key[0], ())):
                        res.failures[-1][1].update(mode=mode, prune=prune) if isinstance(res.failures[-1][1], dict) else None
                        return res
                    n_cmp += 1
                    for i in rows[0]["ins"].values():
                        if (onp.asarray(i["seq"]) >= 0).any():
                            saw_real = True
                        if (onp.asarray(i["seq"]) < 0).any():
                            res.label("window_not_yet_filled")
        res.count("compared_steps", n_cmp)
        if len(set(spec["episodes"])) > 1:
            res.label("ragged_episodes")
        if any(c["blocking"] for c in spec["conns"]):
            res.label("has_blocking")
        res.nontrivial = n_cmp >= 10 and saw_real
    finally:
        run.close()
    return res


def regressions():
    """A trainable zoh delay that makes a message arrive exactly at the consumer's step start on a skipped connection:
    the record already encodes the skip decision (the message is consumed one step later), so the replay must agree.
    (An earlier version of this check reported a difference here; it was the harness folding the bit pattern of -0.0
    - the threaded runtime's default time stamps - into its digests. Corrected in probes._bits.)"""
    det = lambda c: {"k": "det", "c": c}
    spec = dict(
        nodes=[dict(name="n0", rate=25, delay=det(0.0), exp_delay=None, advance=False, scheduling="FREQUENCY"),
               dict(name="n1", rate=50, delay=det(0.0), exp_delay=None, advance=False, scheduling="FREQUENCY")],
        conns=[dict(src="n0", dst="n1", blocking=False, skip=True, jitter="LATEST", window=2, delay={"k": "train", "min": 0.02, "max": 0.06, "d": 0.06, "interp": "zoh"}, exp_delay=None),
               dict(src="n1", dst="n0", blocking=False, skip=True, jitter="LATEST", window=4, delay=det(0.01), exp_delay=None)],
        supervisor="n1", seed=3, episodes=[5, 10], jit={"n0": False, "n1": False}, cls="tie", carry=False)
    import json, os

    out = [dict(spec=spec, combos=[["TOPOLOGICAL", True], ["MCS", True]])]
    # known finding (see known_findings.json): structural tie on a trainable connection, float32 arrival rounds above the step start
    path = os.path.join(os.path.dirname(__file__), "..", "regressions", "c01_trainable_tie.json")
    if os.path.exists(path):
        with open(path) as f:
            out.append(json.load(f))
    return out
