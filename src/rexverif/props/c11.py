"""C11 — interpolated (linear) trainable delays sample the sender's signal at (step start - delay).

Function-level: InputState buffers are built directly and TrainableDist.apply_delay is compared with a float64
numpy reference of the sender's piecewise-linear signal.
"""
import numpy as onp
from hypothesis import strategies as st

from rexverif.common import CaseResult

ID = "C11"
TIERS = {
    "quick": dict(examples=4000, shards=16, timeout_s=1200, shrink_s=90),
    "thorough": dict(examples=80000, shards=16, timeout_s=7200, shrink_s=240),
}
RULE = (
    "Hypothesis draws an InputState buffer (window 1-4 + extension 1-4, 0..cum-1 leading default entries, periodic or "
    "jittered send times, 1-2 payload leaves of shape (), (2,), (2,3), float32/int32), a delay alpha in [0,1], the "
    "interpolation variant and a query position placed by construction (inside a segment / exactly on a delayed "
    "arrival / after the last arrival / before the first real arrival). Oracle: float64 reference signal; bounds; zoh "
    "coincidence; continuity in the delay; grad vs central finite difference. Non-trivial = window+extension >= 3, at "
    "least 2 real messages, and the query lies strictly inside a segment between two real messages with different "
    "payload values (so interpolation, not hold, decides the result); distinct = hash of the drawn spec."
)
ASSUMPTIONS = [
    "older window entries are asserted only when at least `window` buffer entries (defaults count, they arrive at t=0) have arrived by ts_start; the newest entry is asserted everywhere",
    "older window entries are asserted only for strictly periodic senders when the selected slice holds real messages only",
    "int32 payload leaves are compared with a slack of 1 (the implementation truncates the interpolated float)",
    "float32: tolerance = 16 ulp(ts)/segment length x payload range + 1e-5 x range + 4 eps32 x payload magnitude",
]

_POS = ["inside", "inside", "inside", "on_msg", "after_last", "before_first", "early", "early"]


@st.composite
def _case(draw):
    rate = draw(st.sampled_from([5, 10, 20, 25, 50]))
    window = draw(st.integers(1, 4))
    wd = draw(st.integers(1, 4))
    cum = window + wd
    n_dummy = draw(st.integers(0, cum - 1))
    u = draw(st.integers(5, 95)) / 100.0
    dmin_frac = draw(st.integers(0, 200)) / 100.0  # min delay in sender periods
    alpha = draw(st.one_of(st.sampled_from([0.0, 1.0]), st.integers(0, 1000).map(lambda i: i / 1000.0)))
    periodic = draw(st.booleans())
    s0 = 0 if n_dummy > 0 else draw(st.integers(0, 40))
    phase_frac = draw(st.integers(0, 99)) / 100.0
    n_real = cum - n_dummy
    jit = [0.0] * n_real if periodic else [draw(st.integers(-30, 30)) / 100.0 for _ in range(n_real)]
    leaves = []
    for _ in range(draw(st.integers(1, 2))):
        shape = draw(st.sampled_from([[], [2], [2, 3], [3]]))
        dtype = draw(st.sampled_from(["float32", "float32", "int32"]))
        n = int(onp.prod(shape)) if shape else 1
        lo, hi = (-100, 100)
        if dtype == "int32":
            vals = [[draw(st.integers(lo, hi)) for _ in range(n)] for _ in range(n_real)]
            default = [draw(st.integers(lo, hi))] * n
        else:
            vals = [[draw(st.integers(-100000, 100000)) / 1000.0 for _ in range(n)] for _ in range(n_real)]
            default = [draw(st.integers(-100000, 100000)) / 1000.0] * n
        leaves.append(dict(shape=shape, dtype=dtype, vals=vals, default=default))
    interp = draw(st.sampled_from(["linear", "linear_real_only"]))
    pos = draw(st.sampled_from(_POS))
    k = draw(st.integers(0, cum - 1))
    frac = draw(st.integers(5, 95)) / 100.0
    return dict(rate=rate, window=window, wd=wd, n_dummy=n_dummy, u=u, dmin_frac=dmin_frac, alpha=alpha, periodic=periodic,
                s0=s0, phase_frac=phase_frac, jit=jit, leaves=leaves, interp=interp, pos=pos, k=k, frac=frac)


def strategy(tier):
    return _case()


def _ulp32(x):
    return float(onp.spacing(onp.float32(abs(x) + 1e-30)))


def check(case) -> CaseResult:
    import jax
    import jax.numpy as jnp

    from rex.base import InputState, TrainableDist

    res = CaseResult()
    rate, window, wd = case["rate"], case["window"], case["wd"]
    period = 1.0 / rate
    cum = window + wd
    n_dummy = case["n_dummy"]
    n_real = cum - n_dummy
    dmin = case["dmin_frac"] * period
    dmax = dmin + (wd - case["u"]) * period
    interp = case["interp"]

    dist = TrainableDist.create(delay=dmin, min=dmin, max=dmax, interp=interp)
    if dist.window(rate) != wd:
        res.rejected = "window extension differs from the constructed one (rounding)"
        return res
    alpha32 = onp.float32(case["alpha"])
    dist = dist.replace(alpha=jnp.asarray(alpha32))
    zdist = TrainableDist.create(delay=dmin, min=dmin, max=dmax, interp="zoh").replace(alpha=jnp.asarray(alpha32))

    # ---- the buffer (float32, exactly what the implementation receives)
    seq = onp.array([-(n_dummy - i) for i in range(n_dummy)] + [case["s0"] + i for i in range(n_real)], dtype=onp.int32)
    ts_sent_real = onp.array(
        # jittered senders get a base offset so that no send time is negative (episode time starts at 0)
        [(case["s0"] + i) * period + case["phase_frac"] * period + case["jit"][i] * period + (0.0 if case["periodic"] else 0.35 * period) for i in range(n_real)], dtype=onp.float32
    )
    ts_sent = onp.concatenate([onp.zeros(n_dummy, dtype=onp.float32), ts_sent_real])
    if n_real >= 2 and not (onp.diff(ts_sent_real.astype(onp.float64)) > 0.2 * period).all():
        res.rejected = "jitter collapsed two send times"
        return res
    data = {}
    for li, lf in enumerate(case["leaves"]):
        rows = [lf["default"]] * n_dummy + lf["vals"]
        data[f"l{li}"] = onp.array(rows, dtype=lf["dtype"]).reshape([cum] + lf["shape"])
    ts_recv_in = onp.zeros(cum, dtype=onp.float32)  # arrival under the minimal delay is irrelevant for seq>=0 (overwritten)
    ts_recv_in[n_dummy:] = (ts_sent_real.astype(onp.float64) + dmin).astype(onp.float32)
    inp = InputState.from_outputs(jnp.asarray(seq), jnp.asarray(ts_sent), jnp.asarray(ts_recv_in),
                                  {k: jnp.asarray(v) for k, v in data.items()}, delay_dist=dist, is_data=True)
    zinp = inp.replace(delay_dist=zdist)

    # ---- reference quantities (float64 on the float32 inputs)
    d = dmin + float(alpha32) * (dmax - dmin)
    arr = onp.where(seq < 0, 0.0, ts_sent.astype(onp.float64) + d)  # delayed arrivals; defaults arrive at t = 0
    # arrivals as the implementation rounds them (public: the zoh result for a far-future step returns them)
    far = zdist.apply_delay(rate, zinp, jnp.float32(1e6))
    arr32 = onp.asarray(far.ts_recv, dtype=onp.float32)  # last `window` arrivals
    arr32_full = onp.concatenate([onp.full(cum - window, onp.nan, dtype=onp.float32), arr32])

    # ---- query position
    pos, k = case["pos"], case["k"]
    first_real = n_dummy
    lo_k = max(window - 1, 0)  # index k such that entries 0..k have arrived -> idx_max = k+1 >= window
    if pos == "inside":
        kk = lo_k + k % max(1, (cum - 1) - lo_k) if cum - 1 > lo_k else None
        if kk is None or kk + 1 > cum - 1:
            pos = "after_last"
        else:
            ts_start = arr[kk] + case["frac"] * (arr[kk + 1] - arr[kk])
            seg = (kk, kk + 1)
    if pos == "on_msg":
        kk = max(cum - window, lo_k) + k % (cum - max(cum - window, lo_k))  # arr32 is known for the last `window` entries
        if seq[kk] < 0:
            pos = "after_last"
        else:
            ts_start = float(arr32_full[kk])
            seg = (kk, kk)
    if pos == "before_first":
        if n_dummy >= window and n_real >= 1 and arr[first_real] > 1e-3:
            ts_start = case["frac"] * arr[first_real]
            seg = (first_real - 1, first_real)
        else:
            pos = "after_last"
    if pos == "early":
        # fewer than `window` entries have arrived (jittered senders / delays near max can do that in a real run): the
        # newest entry is still the signal at ts_start; older entries are not asserted there
        cands = [i for i in range(0, min(window - 1, cum - 1))]
        if cands and arr[cands[-1] + 1] > arr[cands[0]]:
            kk = cands[k % len(cands)]
            ts_start = arr[kk] + case["frac"] * (arr[kk + 1] - arr[kk])
            seg = (kk, kk + 1)
        elif arr[0] > 1e-3:
            ts_start = case["frac"] * arr[0]
            seg = (0, 0)
        else:
            pos = "after_last"
    if pos == "after_last":
        ts_start = arr[-1] + case["frac"] * 2 * period
        seg = (cum - 1, cum - 1)
    ts_start32 = onp.float32(ts_start)
    t = float(ts_start32)
    res.label("pos_" + pos, interp, "periodic" if case["periodic"] else "jittered", f"dummies_{min(n_dummy, 3)}")

    # number of entries that have arrived by t (spec level); near ties -> tolerant
    margin = 4 * _ulp32(max(t, arr.max()))
    near_tie = bool((onp.abs(arr - t) < margin).any()) and pos != "on_msg"
    n_arrived = int((arr <= t).sum()) if pos != "on_msg" else seg[0] + 1
    few = n_arrived < window
    if few:
        res.label("fewer_than_window_arrived")
    if near_tie:
        res.label("near_tie_skipped")
        return res

    # ---- run the implementation
    try:
        out = dist.apply_delay(rate, inp, jnp.asarray(ts_start32))
    except Exception as e:
        res.fail("apply_delay_raises", dict(err=f"{type(e).__name__}: {str(e)[:200]}"))
        return res

    # ---- reference signal
    if interp == "linear":
        kt, kidx = arr.copy(), list(range(cum))
    else:
        kidx = [i for i in range(cum) if seq[i] >= 0]
        kt = arr[kidx]
    # de-duplicate equal knot times (several defaults at t=0 carry the same value): keep the last
    keep = [i for i in range(len(kt)) if i == len(kt) - 1 or kt[i + 1] > kt[i]]
    kt_u = kt[keep]
    kidx_u = [kidx[i] for i in keep]

    def signal(leaf, tq):
        v = data[leaf].astype(onp.float64).reshape(cum, -1)[kidx_u]  # (knots, features)
        return onp.stack([onp.interp(tq, kt_u, v[:, j]) for j in range(v.shape[1])], axis=-1)  # (len(tq), features)

    slice_real_only = (not few) and all(seq[i] >= 0 for i in range(n_arrived - window, n_arrived))
    for leaf, lf in zip(sorted(data), case["leaves"]):
        got = onp.asarray(out.data[leaf])
        want_shape = tuple([window] + lf["shape"])
        if got.shape != want_shape:
            res.fail("shape", dict(leaf=leaf, got=got.shape, want=want_shape))
            continue
        if str(got.dtype) != lf["dtype"]:
            res.fail("dtype", dict(leaf=leaf, got=str(got.dtype), want=lf["dtype"]))
            continue
        g = got.astype(onp.float64).reshape(window, -1)
        vals = data[leaf].astype(onp.float64).reshape(cum, -1)
        rng_ = float(vals.max() - vals.min()) + 1e-9
        min_seg = float(onp.min(onp.diff(kt_u))) if len(kt_u) > 1 else period
        # time resolution x slope, plus the float32 rounding of the values themselves (4 eps x magnitude)
        tol = 16 * _ulp32(max(t, arr.max())) / max(min_seg, 1e-6) * rng_ + 1e-5 * rng_ + 4 * 1.2e-7 * float(onp.abs(vals).max())
        slack = 1.0 if lf["dtype"] == "int32" else 0.0
        # newest entry == signal(t)
        want_new = signal(leaf, onp.array([t]))[0]
        if not (onp.abs(g[-1] - want_new) <= tol + slack).all():
            j = int(onp.argmax(onp.abs(g[-1] - want_new)))
            res.fail(
                "newest_entry_is_signal_at_ts_minus_delay",
                dict(interp=interp, pos=pos, feature=j, got=g[-1][j], want=want_new[j], tol=tol, window=window, shape=lf["shape"], dtype=lf["dtype"]),
            )
        # bounds: between the neighbouring messages
        a, b = seg
        if interp == "linear_real_only" and seq[a] < 0:
            a = b  # defaults are excluded from the signal: before the first real arrival the first real value is held
        lo_v = onp.minimum(vals[a], vals[b]) - tol - slack
        hi_v = onp.maximum(vals[a], vals[b]) + tol + slack
        if not ((g[-1] >= lo_v) & (g[-1] <= hi_v)).all():
            res.fail("newest_entry_between_neighbours", dict(interp=interp, pos=pos, got=g[-1].tolist()[:4], lo=lo_v.tolist()[:4], hi=hi_v.tolist()[:4]))
        # older entries: one sender period apart (periodic senders, real-only slices)
        if case["periodic"] and slice_real_only and window > 1:
            tq = onp.array([t - (window - 1 - j) * period for j in range(window)])
            want_all = signal(leaf, tq)
            tol_o = tol + 8 * _ulp32(max(t, arr.max())) / max(min_seg, 1e-6) * rng_
            if not (onp.abs(g - want_all) <= tol_o + slack).all():
                j = onp.unravel_index(int(onp.argmax(onp.abs(g - want_all))), g.shape)
                res.fail(
                    "older_entries_one_period_apart",
                    dict(interp=interp, pos=pos, entry=int(j[0]), feature=int(j[1]), got=g[j], want=want_all[j], tol=tol_o, window=window, shape=lf["shape"], dtype=lf["dtype"]),
                )
            res.label("older_entries_checked")
        # coincidence with zero-order hold
        if pos == "on_msg":
            zo = zdist.apply_delay(rate, zinp, jnp.asarray(ts_start32))
            zseq = int(onp.asarray(zo.seq)[-1])
            if zseq != int(seq[seg[0]]):
                res.fail("zoh_includes_message_arriving_exactly_at_ts", dict(got_seq=zseq, want_seq=int(seq[seg[0]])))
            else:
                zv = onp.asarray(zo.data[leaf]).astype(onp.float64).reshape(window, -1)[-1]
                if not (onp.abs(g[-1] - zv) <= tol + slack).all():
                    res.fail("coincides_with_zoh_on_message", dict(interp=interp, got=g[-1].tolist()[:4], zoh=zv.tolist()[:4], tol=tol))
            res.label("zoh_coincidence_checked")

    # ---- continuity in the delay and gradient (float leaves, strictly inside a segment)
    fl = [l for l, lf in zip(sorted(data), case["leaves"]) if lf["dtype"] == "float32"]
    if pos == "inside" and fl and seq[seg[0]] >= 0:
        leaf = fl[0]
        vals = data[leaf].astype(onp.float64).reshape(cum, -1)
        seg_len = arr[seg[1]] - arr[seg[0]]
        dist_to_end = min(t - arr[seg[0]], arr[seg[1]] - t)
        span = dmax - dmin
        # continuity: shift the delay by h (in seconds) that keeps the query inside the segment
        h_d = 0.25 * dist_to_end
        h_a = h_d / span
        a0 = float(alpha32)
        if 0.0 <= a0 - h_a and a0 + h_a <= 1.0:
            L = onp.abs(vals[seg[1]] - vals[seg[0]]) / seg_len
            f = lambda a_: onp.asarray(
                dist.replace(alpha=jnp.float32(a_)).apply_delay(rate, inp, jnp.asarray(ts_start32)).data[leaf]
            ).astype(onp.float64).reshape(window, -1)[-1]
            fp, fm = f(a0 + h_a), f(a0 - h_a)
            rng_ = float(vals.max() - vals.min()) + 1e-9
            tol = 16 * _ulp32(max(t, arr.max())) / max(seg_len, 1e-6) * rng_ + 1e-5 * rng_ + 4 * 1.2e-7 * float(onp.abs(vals).max())
            if not (onp.abs(fp - fm) <= L * 2 * h_d + 2 * tol).all():
                res.fail("continuous_in_delay", dict(interp=interp, jump=float(onp.abs(fp - fm).max()), bound=float((L * 2 * h_d).max())))
            # gradient
            slope = (vals[seg[1]] - vals[seg[0]]) / seg_len  # d value / d t
            want_grad = float((-slope * span).sum())  # d/d alpha of sum(features): signal evaluated at t - d
            fd = float((fp - fm).sum() / (2 * h_a))
            signal_change = float(onp.abs(slope).sum() * 2 * h_d)
            noise = 8 * 1.2e-7 * float(onp.abs(vals[list(seg)]).sum()) + 4 * tol
            if signal_change > 200 * noise:

                def loss(a_):
                    o = dist.replace(alpha=a_).apply_delay(rate, inp, jnp.asarray(ts_start32))
                    return jnp.sum(o.data[leaf][-1])

                try:
                    gr = float(jax.grad(loss)(jnp.float32(a0)))
                except Exception as e:
                    res.fail("grad_raises", dict(err=f"{type(e).__name__}: {str(e)[:200]}"))
                    gr = None
                if gr is not None:
                    scale = abs(want_grad) + float(onp.abs(slope * span).sum()) * 1e-3 + 1e-9
                    if abs(gr - fd) > 0.03 * scale + 2 * noise / (2 * h_a):
                        res.fail("grad_equals_finite_difference", dict(interp=interp, grad=gr, fd=fd, analytic=want_grad))
                    elif abs(gr - want_grad) > 0.03 * scale:
                        res.fail("grad_equals_signal_slope", dict(interp=interp, grad=gr, analytic=want_grad, fd=fd))
                    res.label("grad_checked")

    # ---- classification
    two_real_diff = False
    if pos == "inside" and seq[seg[0]] >= 0:
        for leaf in data:
            v = data[leaf].reshape(cum, -1)
            if (v[seg[0]] != v[seg[1]]).any():
                two_real_diff = True
    multi_feature = any(len(lf["shape"]) > 0 and int(onp.prod(lf["shape"])) > 1 for lf in case["leaves"])
    if multi_feature and window > 1:
        res.label("multi_feature_and_window_gt_1")
    res.nontrivial = cum >= 3 and n_real >= 2 and two_real_diff
    return res


def regressions():
    """fixed in bb70f7b: window 2, a leaf with 2 features -> linear branches returned the block scrambled."""
    return [
        dict(rate=10, window=2, wd=1, n_dummy=0, u=0.5, dmin_frac=0.0, alpha=0.5, periodic=True, s0=0, phase_frac=0.0,
             jit=[0.0, 0.0, 0.0],
             leaves=[dict(shape=[2], dtype="float32", vals=[[0.0, 1000.0], [10.0, 1001.0], [20.0, 1002.0]], default=[0.0, 0.0])],
             interp=itp, pos="inside", k=1, frac=0.5)
        for itp in ("linear", "linear_real_only")
    ]
