"""C09 — compiled execution is a pure function, independent of the driving API."""
import functools

import numpy as onp
from hypothesis import strategies as st

from rexverif import compiledrun, rawgraphs, sysgen
from rexverif.common import CaseResult

ID = "C09"
TIERS = {
    "quick": dict(examples=64, shards=16, timeout_s=2400, shrink_s=180),
    "thorough": dict(examples=480, shards=16, timeout_s=10800, shrink_s=300),
}
RULE = (
    "Hypothesis draws a computation graph (independent generator of C07), supergraph mode, prune, an rng seed, a params "
    "override for one node, a starting episode (also negative / too large) and starting step, the number of steps n and which "
    "API compositions to compare. From one initial GraphState: run^n (jit) vs rollout(n, carry_only) vs last element of "
    "rollout(n, full) vs reset;step^n vs run^n;reset vs eager run^n (n<=2) vs each lane of a vmapped rollout over a batch of "
    "initial states; step(gs) vs step(gs, *supervisor.step(ss)); params given to init() are what the probes see; out-of-range "
    "episode/step behave exactly like the clipped value (never like x mod n). All comparisons are bitwise on the returned "
    "GraphState pytrees (probe nodes compute with int32 only). Non-trivial = n >= 2, >= 2 nodes executed and >= 4 API pairs "
    "compared; distinct = hash of the case."
)
ASSUMPTIONS = [
    "all runs stay inside the documented horizon (graph.max_steps)",
    "bitwise equality is meaningful because probe nodes use integer arithmetic; time stamps come from the schedule",
]


@st.composite
def _case(draw, tier):
    raw = draw(rawgraphs.raw_case(max_eps=3))
    return dict(
        raw=raw,
        mode=draw(st.sampled_from(compiledrun.MODES)),
        prune=draw(st.booleans()),
        seed=draw(st.integers(0, 2**31 - 1)),
        const=draw(st.integers(1, 1000)),
        const_node=draw(st.integers(0, 3)),
        start_eps=draw(st.sampled_from([0, 0, 1, 2, -1, -3, 3, 7])),
        start_step=draw(st.sampled_from([0, 0, 0, 1, 2, 3, -2, 50])),
        n=draw(st.integers(1, 5)),
        eager=draw(st.integers(0, 3)) == 0,
        batch=draw(st.integers(2, 3)),
    )


def strategy(tier):
    return _case(tier)


def _leaves(gs):
    import jax

    return jax.tree_util.tree_flatten_with_path(gs.replace(aux=None))[0]


def _equal(res, clause, a, b, info=None):
    import jax

    la, lb = _leaves(a), _leaves(b)
    if len(la) != len(lb):
        res.fail(clause, dict(reason="structure", **(info or {})))
        return False
    for (pa, xa), (pb, xb) in zip(la, lb):
        xa, xb = onp.asarray(xa), onp.asarray(xb)
        if xa.shape != xb.shape or not onp.array_equal(xa, xb):
            res.fail(clause, dict(leaf=jax.tree_util.keystr(pa), a=xa.ravel()[:6], b=xb.ravel()[:6], **(info or {})))
            return False
    return True


def check(case) -> CaseResult:
    import jax
    import jax.numpy as jnp

    from rexverif.probes import PParams, Trace

    res = CaseResult()
    raw = case["raw"]
    res.label("mode_" + case["mode"], "prune_" + str(case["prune"]))
    trace = Trace()
    trace.enabled = False
    nodes = sysgen.build_nodes(rawgraphs.to_sys_spec(raw), trace=trace)
    graphs, cg = rawgraphs.to_rex_graph(raw)
    sup = raw["supervisor"]
    try:
        graph = compiledrun.compile_graph(nodes, sup, cg, mode=case["mode"], prune=case["prune"])
    except ValueError as ex:
        if "There are no nodes in the partition" in str(ex):
            res.rejected = "empty partition (supervisor depends on nothing)"
            return res
        raise
    E = len(raw["episodes"])
    P = int(graph.max_steps) + 1
    if P < 2:
        res.rejected = "horizon too short"
        return res
    cn = raw["names"][case["const_node"] % len(raw["names"])]
    params = {cn: PParams(nid=jnp.int32(nodes[cn].nid), c=jnp.int32(case["const"]))}
    eps_c = min(max(case["start_eps"], 0), E - 1)
    step_c = min(max(case["start_step"], 0), P - 1)
    key = jax.random.PRNGKey(case["seed"])
    gs = graph.init(key, params=params, starting_eps=case["start_eps"], starting_step=case["start_step"])
    pairs = 0
    # ---- clipping (never wrapping)
    if int(gs.eps) != eps_c or int(gs.step) != step_c:
        res.fail("C09.out_of_range_index_not_clipped", dict(start_eps=case["start_eps"], start_step=case["start_step"], got=[int(gs.eps), int(gs.step)], want=[eps_c, step_c]))
        return res
    gs_c = graph.init(key, params=params, starting_eps=eps_c, starting_step=step_c)
    if not _equal(res, "C09.out_of_range_init_differs_from_clipped", gs, gs_c):
        return res
    if case["start_eps"] != eps_c or case["start_step"] != step_c:
        res.label("clipped_index")
    if int(gs.params[cn].c) != case["const"]:
        res.fail("C09.params_override_lost", dict(node=cn, got=int(gs.params[cn].c), want=case["const"]))
        return res
    n = max(1, min(case["n"], (P - 1) - step_c))
    if (P - 1) - step_c < 1:
        # start at the last partition: only a reset is inside the horizon
        res.label("start_at_last_partition")
        res.nontrivial = False
        return res
    run_j = jax.jit(graph.run)
    reset_j, step_j = jax.jit(graph.reset), jax.jit(graph.step)

    # A: run^n
    a = gs
    for _ in range(n):
        a = run_j(a)
    # the steps see eps/step/params: observable through the trace of one traced run
    trace.enabled = True
    t = gs
    for _ in range(n):
        t = run_j(t)
    jax.block_until_ready(t.step)
    T = trace.by_key()
    trace.enabled = False
    trace.clear()
    if not _equal(res, "C09.run_not_deterministic", a, t):
        return res
    for (name, e, k), rows in T.items():
        if e != eps_c:
            res.fail("C09.step_sees_wrong_episode", dict(node=name, eps_seen=e, want=eps_c, given=case["start_eps"]))
            return res
        if name == cn and int(rows[0]["c"]) != case["const"]:
            res.fail("C09.step_sees_wrong_params", dict(node=name, c_seen=int(rows[0]["c"]), want=case["const"]))
            return res
    executed_nodes = {k[0] for k in T}
    sched = compiledrun.schedule_of(graph)
    want_first = {(s["kind"], int(s["seq"][eps_c, step_c])) for s in sched.values() if s["run"][eps_c, step_c]}
    got_first = {(nm, k) for (nm, e, k) in T}
    if not want_first <= got_first:
        res.fail("C09.first_partition_is_not_the_clipped_starting_step", dict(missing=[list(x) for x in sorted(want_first - got_first)[:4]], start_step=case["start_step"], clipped=step_c))
        return res
    # B: rollout carry_only / full
    b = jax.jit(functools.partial(graph.rollout, max_steps=n, carry_only=True))(gs)
    if not _equal(res, "C09.rollout_carry_only_differs_from_run_n", a, b, dict(n=n, start_step=step_c)):
        return res
    pairs += 1
    full = jax.jit(functools.partial(graph.rollout, max_steps=n, carry_only=False))(gs)
    last = jax.tree_util.tree_map(lambda x: x[-1], full)
    if not _equal(res, "C09.rollout_full_last_differs_from_run_n", a, last, dict(n=n, start_step=step_c)):
        return res
    pairs += 1
    if n >= 2:
        first = jax.tree_util.tree_map(lambda x: x[0], full)
        if not _equal(res, "C09.rollout_full_first_differs_from_run_1", run_j(gs), first):
            return res
        pairs += 1
    # C: reset; step^n  ==  run^n; reset
    if step_c + n <= P - 1:
        c, ss = reset_j(gs)
        for _ in range(n):
            c, ss = step_j(c)
        d, ss_d = reset_j(a)
        if not _equal(res, "C09.reset_step_n_differs_from_run_n_reset", c, d, dict(n=n, start_step=step_c)):
            return res
        pairs += 1
        # D: step(gs) == step(gs, *supervisor.step(ss))
        c1, ss1 = reset_j(gs)
        new_ss, out = jax.jit(nodes[sup].step)(ss1)
        e1, _ = step_j(c1)
        e2, _ = step_j(c1, new_ss, out)
        if not _equal(res, "C09.step_with_supervisors_own_result_differs", e1, e2):
            return res
        pairs += 1
    # E: eager
    if case["eager"]:
        ne = min(n, 2)
        ea = gs
        for _ in range(ne):
            ea = graph.run(ea)
        ja = gs
        for _ in range(ne):
            ja = run_j(ja)
        if not _equal(res, "C09.eager_run_differs_from_jit", ea, ja, dict(n=ne)):
            return res
        pairs += 1
        res.label("eager_checked")
    # F: vmap over a batch of initial states
    B = case["batch"]
    inits = [graph.init(jax.random.PRNGKey(case["seed"] + i), params=params, starting_eps=case["start_eps"] + i, starting_step=step_c) for i in range(B)]
    batched = jax.tree_util.tree_map(lambda *x: jnp.stack(x), *inits)
    vb = jax.jit(jax.vmap(functools.partial(graph.rollout, max_steps=n, carry_only=True)))(batched)
    for i in range(B):
        lane = jax.tree_util.tree_map(lambda x: x[i], vb)
        single = jax.jit(functools.partial(graph.rollout, max_steps=n, carry_only=True))(inits[i])
        if not _equal(res, "C09.vmap_lane_differs_from_single_run", lane, single, dict(lane=i)):
            return res
    pairs += 1
    res.count("api_pairs", pairs)
    res.nontrivial = n >= 2 and len(executed_nodes) >= 2 and pairs >= 4
    return res


def regressions():
    return []
