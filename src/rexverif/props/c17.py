"""C17 — parameter transforms are invertible and compose in order.

Domain: nested pytrees (dict / list / flax dataclass, None leaves, leaves of shapes (), (n,), (n,m)), bounds min<max,
chains of 1-4 of Denormalize / Exponential / Identity / Shared; Extend only in the apply direction.
Oracle: float64 numpy reference of each transform, round trips, end points, monotonicity, order of composition.
"""
import numpy as onp
from hypothesis import strategies as st

from rexverif.common import CaseResult

ID = "C17"
TIERS = {
    "quick": dict(examples=1600, shards=16, timeout_s=900, shrink_s=60),
    "thorough": dict(examples=400000, shards=16, timeout_s=3600, shrink_s=240),
}
RULE = (
    "Hypothesis draws a pytree skeleton (dict/list/dataclass nesting, None leaves, leaf shapes (),(n,),(n,m)), float32 "
    "leaf values, bounds min<max per leaf (float32, and a second integer-typed set: int32 arrays / Python ints derived as "
    "floor(lo), floor(lo)+max(1,ceil(gap))) and a chain of 1-4 transforms; each case checks round trip, end points, "
    "monotonicity, chain order (vs a float64 reference composition), Shared and Extend.apply. Non-trivial = the tree has "
    ">= 2 array leaves and either a None leaf or nesting depth >= 2, and the chain has >= 2 members whose two orders "
    "differ by more than 100x the comparison tolerance (so an order bug is observable); distinct = hash of the drawn spec."
)
ASSUMPTIONS = [
    "Extend.inv is not claimed by C17 (raises under the installed JAX; in the always-failing baseline set)",
    "float32 arithmetic: tolerances are 8 ulp scaled by the magnitudes entering each formula (stated per clause)",
    "Exponential is checked for |x| <= 20 (no float32 overflow), its inverse for positive values",
]

EPS = 1.2e-7

# ------------------------------------------------------------------ strategies

import struct as _struct
_r32 = lambda v: _struct.unpack("f", _struct.pack("f", v))[0]
_f = lambda lo, hi: st.floats(min_value=_r32(lo), max_value=_r32(hi), allow_nan=False, allow_infinity=False, width=32)


@st.composite
def _leaf(draw):
    shape = draw(st.sampled_from([[], [], [1], [3], [2, 2], [1, 3]]))
    n = int(onp.prod(shape)) if shape else 1
    x = draw(st.lists(_f(-1.0, 1.0), min_size=n, max_size=n))  # normalised coordinates
    lo = draw(st.lists(_f(-100.0, 100.0), min_size=n, max_size=n))
    gap = draw(st.lists(_f(1e-3, 100.0), min_size=n, max_size=n))
    return {"L": shape, "x": x, "lo": lo, "gap": gap}


def _tree(depth):
    if depth == 0:
        return st.one_of(_leaf(), _leaf(), st.none())
    sub = _tree(depth - 1)
    return st.one_of(
        _leaf(),
        st.none(),
        st.dictionaries(st.sampled_from(["a", "b", "c", "d"]), sub, min_size=1, max_size=3),
        st.lists(sub, min_size=1, max_size=3),
        st.fixed_dictionaries({"__dc__": st.just(True), "x": sub, "y": sub}),
    )


@st.composite
def _case(draw):
    tree = draw(st.dictionaries(st.sampled_from(["p", "q", "r", "s"]), _tree(2), min_size=1, max_size=4))
    chain = draw(st.lists(st.sampled_from(["denorm", "exp", "id", "denorm", "exp"]), min_size=1, max_size=4))
    # second bounds set for a possible second denorm in the chain: reuse lo/gap permuted by a drawn shift
    shift = draw(_f(-3.0, 3.0))
    scale2 = draw(_f(0.25, 4.0))
    drop = draw(st.lists(st.booleans(), min_size=8, max_size=8))  # which leaves/subtrees become None in the partial tree
    shared = draw(st.tuples(st.integers(0, 7), st.integers(0, 7)))
    return {"tree": tree, "chain": chain, "shift": shift, "scale2": scale2, "drop": drop, "shared": list(shared)}


def strategy(tier):
    return _case()


# ------------------------------------------------------------------ building pytrees

_DC = None


def _dc():
    global _DC
    if _DC is None:
        from flax import struct

        @struct.dataclass
        class Pair:
            x: object
            y: object

        _DC = Pair
    return _DC


def build(spec, fn):
    """Map the JSON skeleton to a pytree, leaf arrays given by fn(leafspec)."""
    if spec is None:
        return None
    if isinstance(spec, dict) and "L" in spec:
        return fn(spec)
    if isinstance(spec, dict) and spec.get("__dc__"):
        return _dc()(x=build(spec["x"], fn), y=build(spec["y"], fn))
    if isinstance(spec, dict):
        return {k: build(v, fn) for k, v in spec.items()}
    return [build(v, fn) for v in spec]


def leaves_of(spec, path=()):
    if spec is None:
        return []
    if isinstance(spec, dict) and "L" in spec:
        return [(path, spec)]
    out = []
    if isinstance(spec, dict):
        for k, v in spec.items():
            if k == "__dc__":
                continue
            out += leaves_of(v, path + (k,))
    else:
        for i, v in enumerate(spec):
            out += leaves_of(v, path + (i,))
    return out


def depth_of(spec):
    if spec is None or (isinstance(spec, dict) and "L" in spec):
        return 0
    vals = [v for k, v in spec.items() if k != "__dc__"] if isinstance(spec, dict) else list(spec)
    return 1 + max([depth_of(v) for v in vals] + [0])


def has_none(spec):
    if spec is None:
        return True
    if isinstance(spec, dict) and "L" in spec:
        return False
    vals = [v for k, v in spec.items() if k != "__dc__"] if isinstance(spec, dict) else list(spec)
    return any(has_none(v) for v in vals)


def _arr(vals, shape, dtype="float32"):
    return onp.array(vals, dtype=dtype).reshape(shape)


def flat(tree):
    import jax

    return [onp.asarray(l, dtype=onp.float64) for l in jax.tree_util.tree_leaves(tree)]


# ------------------------------------------------------------------ the check


def check(case) -> CaseResult:
    import jax
    import jax.numpy as jnp

    from rex.base import Chain, Denormalize, Exponential, Extend, Identity, Shared

    res = CaseResult()
    spec = case["tree"]
    lv = leaves_of(spec)
    if not lv:
        res.label("no_array_leaf")
        return res

    f32 = lambda a: jnp.asarray(onp.asarray(a, dtype=onp.float32))
    x = build(spec, lambda s: f32(_arr(s["x"], s["L"])))
    lo = build(spec, lambda s: f32(_arr(s["lo"], s["L"])))
    hi = build(spec, lambda s: f32(_arr(s["lo"], s["L"]) + _arr(s["gap"], s["L"])))
    # second set of bounds
    lo2 = build(spec, lambda s: f32(_arr(s["lo"], s["L"]) * 0.5 + onp.float32(case["shift"])))
    hi2 = build(
        spec, lambda s: f32(_arr(s["lo"], s["L"]) * 0.5 + onp.float32(case["shift"]) + _arr(s["gap"], s["L"]) * case["scale2"])
    )
    treedef = jax.tree_util.tree_structure(x)

    def same_struct(t, clause):
        td = jax.tree_util.tree_structure(t)
        if td != treedef:
            res.fail(clause + ".structure", dict(expected=str(treedef), got=str(td)))
            return False
        return True

    def close(got, want, tol, clause, extra=None):
        """got: pytree (float32), want/tol: lists of float64 arrays per leaf."""
        g = flat(got)
        if len(g) != len(want):
            res.fail(clause + ".structure", dict(n_got=len(g), n_want=len(want)))
            return False
        for i, (a, b, t) in enumerate(zip(g, want, tol)):
            if a.shape != b.shape:
                res.fail(clause + ".shape", dict(leaf=i, got=a.shape, want=b.shape))
                return False
            bad = ~(onp.abs(a - b) <= t)
            if bad.any():
                j = int(onp.argmax(bad))
                res.fail(clause, dict(leaf=i, got=a.ravel()[j], want=b.ravel()[j], tol=onp.broadcast_to(t, a.shape).ravel()[j], **(extra or {})))
                return False
        return True

    X, LO, HI, LO2, HI2 = flat(x), flat(lo), flat(hi), flat(lo2), flat(hi2)

    # ---- Denormalize: end points, monotone, round trip
    try:
        den = Denormalize.init(lo, hi)
        Denormalize.init(lo2, hi2)
    except Exception as e:  # bounds are valid (min < max everywhere): init must not raise
        res.fail("denorm.init_raises", dict(err=f"{type(e).__name__}: {str(e)[:160]}", shapes=sorted({str(s_["L"]) for _, s_ in lv})))
        res.nontrivial = len(lv) >= 2
        return res
    off = [(a + b) / 2 for a, b in zip(LO, HI)]
    sc = [(b - a) / 2 for a, b in zip(LO, HI)]
    ones = jax.tree_util.tree_map(lambda a: jnp.ones_like(a), x)
    mones = jax.tree_util.tree_map(lambda a: -jnp.ones_like(a), x)
    tol_ep = [8 * EPS * (onp.abs(o) + onp.abs(s) + 1) for o, s in zip(off, sc)]
    a_min = den.apply(mones)
    if same_struct(a_min, "denorm.apply"):
        close(a_min, LO, tol_ep, "denorm.minus_one_to_min")
        close(den.apply(ones), HI, tol_ep, "denorm.plus_one_to_max")
        y = den.apply(x)
        want = [xx * s + o for xx, s, o in zip(X, sc, off)]
        close(y, want, tol_ep, "denorm.apply_value")
        # monotone: x and x + delta (delta>=0)
        x_up = jax.tree_util.tree_map(lambda a: jnp.minimum(a + 0.25, 1.0), x)
        y_up = den.apply(x_up)
        for i, (a, b) in enumerate(zip(flat(y), flat(y_up))):
            if (b < a).any():
                res.fail("denorm.monotone", dict(leaf=i))
                break
        # round trip
        tol_rt = [8 * EPS * (onp.abs(o) / s + onp.abs(xx) + 1) for o, s, xx in zip(off, sc, X)]
        back = den.inv(y)
        if same_struct(back, "denorm.inv"):
            close(back, X, tol_rt, "denorm.roundtrip")

    # ---- Denormalize with integer-typed bounds (int32 arrays; Python ints for scalar leaves): min < max still holds, and
    # the end points / the affine map are the same real-valued ones (odd widths have a half-integer centre).
    def _ib(s, hi_):
        a = onp.floor(_arr(s["lo"], s["L"]).astype(onp.float64)).astype(onp.int32)
        if hi_:
            a = a + onp.maximum(1, onp.ceil(_arr(s["gap"], s["L"]).astype(onp.float64))).astype(onp.int32)
        return int(a) if not s["L"] else jnp.asarray(a)

    ilo, ihi = build(spec, lambda s: _ib(s, False)), build(spec, lambda s: _ib(s, True))
    ILO, IHI = flat(ilo), flat(ihi)
    if any(((b - a) % 2 == 1).any() for a, b in zip(ILO, IHI)):
        res.label("int_bounds_odd_width")
    try:
        iden = Denormalize.init(ilo, ihi)
    except Exception as e:
        res.fail("denorm.int_bounds_init_raises", dict(err=f"{type(e).__name__}: {str(e)[:160]}"))
        iden = None
    if iden is not None:
        ioff = [(a + b) / 2 for a, b in zip(ILO, IHI)]
        isc = [(b - a) / 2 for a, b in zip(ILO, IHI)]
        itol = [8 * EPS * (onp.abs(o) + onp.abs(s) + 1) for o, s in zip(ioff, isc)]
        i_min = iden.apply(mones)
        if same_struct(i_min, "denorm.int_bounds_apply"):
            close(i_min, ILO, itol, "denorm.int_bounds_minus_one_to_min")
            close(iden.apply(ones), IHI, itol, "denorm.int_bounds_plus_one_to_max")
            iy = iden.apply(x)
            close(iy, [xx * s + o for xx, s, o in zip(X, isc, ioff)], itol, "denorm.int_bounds_apply_value")
            iback = iden.inv(iy)
            if same_struct(iback, "denorm.int_bounds_inv"):
                close(iback, X, [8 * EPS * (onp.abs(o) / s + onp.abs(xx) + 1) for o, s, xx in zip(ioff, isc, X)], "denorm.int_bounds_roundtrip")

    # ---- Exponential
    ex = Exponential.init()
    x20 = jax.tree_util.tree_map(lambda a: a * 20.0, x)
    X20 = flat(x20)
    e = ex.apply(x20)
    if same_struct(e, "exp.apply"):
        close(e, [onp.exp(v) for v in X20], [1e-5 * onp.exp(v) + 1e-30 for v in X20], "exp.apply_value")
        close(ex.inv(e), X20, [2e-5 * (1 + onp.abs(v)) for v in X20], "exp.roundtrip")
    # positive domain: apply(inv(y)) == y
    ypos = jax.tree_util.tree_map(lambda a, b: b - a, lo, hi)  # gaps are > 0
    YP = flat(ypos)
    close(ex.apply(ex.inv(ypos)), YP, [1e-4 * v for v in YP], "exp.inverse_on_positive")

    # ---- Identity
    idt = Identity.init()
    for name, t in (("apply", idt.apply(x)), ("inv", idt.inv(x))):
        if same_struct(t, "identity." + name):
            close(t, X, [0.0 * v for v in X], "identity." + name)

    # ---- Chain: order of composition vs float64 reference
    def mk(kind, k):
        if kind == "denorm":
            return (Denormalize.init(lo, hi), ("denorm", LO, HI)) if k % 2 == 0 else (Denormalize.init(lo2, hi2), ("denorm", LO2, HI2))
        if kind == "exp":
            return Exponential.init(), ("exp",)
        return Identity.init(), ("id",)

    members = [mk(kind, k) for k, kind in enumerate(case["chain"])]
    chain = Chain.init(*[m for m, _ in members])

    def ref_apply(vals, descr, order):
        vals = [v.copy() for v in vals]
        mag = [onp.abs(v) for v in vals]  # running magnitude for the tolerance
        err = [onp.zeros_like(v) for v in vals]
        for d in order:
            if d[0] == "denorm":
                o = [(a + b) / 2 for a, b in zip(d[1], d[2])]
                s = [(b - a) / 2 for a, b in zip(d[1], d[2])]
                err = [e_ * s_ + 8 * EPS * (onp.abs(v * s_) + onp.abs(o_) + 1) for e_, s_, v, o_ in zip(err, s, vals, o)]
                vals = [v * s_ + o_ for v, s_, o_ in zip(vals, s, o)]
            elif d[0] == "exp":
                vals = [onp.clip(v, -80, 80) for v in vals]
                err = [onp.exp(v) * (onp.expm1(onp.minimum(e_, 20)) + 2e-6) + 1e-30 for e_, v in zip(err, vals)]
                vals = [onp.exp(v) for v in vals]
        return vals, err

    descrs = [d for _, d in members]
    # keep the chained values finite: start from x scaled into [-1, 1]; at most 4 members; exp after denorm(±200) could overflow
    want, tol = ref_apply(X, None, descrs)
    finite = all(onp.all(onp.abs(w) < 1e30) and onp.all(t < 1e30) for w, t in zip(want, tol))
    # the input of an exp stage must stay <= 80 to be representable in float32
    stage_ok = True
    vals = [v.copy() for v in X]
    for d in descrs:
        if d[0] == "exp" and any((onp.abs(v) > 60).any() for v in vals):
            stage_ok = False
        vals, _ = ref_apply(vals, None, [d])
    if finite and stage_ok:
        got = chain.apply(x)
        if same_struct(got, "chain.apply"):
            ok = close(got, want, tol, "chain.apply_order", extra=dict(chain=case["chain"]))
            # is the order observable here?
            rev, _ = ref_apply(X, None, descrs[::-1])
            observable = any((onp.abs(w - r) > 100 * t).any() for w, r, t in zip(want, rev, tol) if onp.all(onp.isfinite(r)))
            if len(descrs) >= 2 and observable:
                res.label("chain_order_observable")
            # inverse: last-to-first; compare in the input space with tolerance derived by perturbation
            if ok:
                back = chain.inv(got)
                if same_struct(back, "chain.inv"):
                    # tolerance: conditioning of the inverse, estimated with a float64 reference run on float32-rounded data
                    def ref_inv(vals_, order):
                        vals_ = [v.copy() for v in vals_]
                        for d in order[::-1]:
                            if d[0] == "denorm":
                                o = [(a + b) / 2 for a, b in zip(d[1], d[2])]
                                s = [(b - a) / 2 for a, b in zip(d[1], d[2])]
                                vals_ = [(v - o_) / s_ for v, o_, s_ in zip(vals_, o, s)]
                            elif d[0] == "exp":
                                with onp.errstate(all="ignore"):
                                    vals_ = [onp.log(v) for v in vals_]
                        return vals_

                    G = flat(got)
                    with onp.errstate(all="ignore"):
                        base = ref_inv(G, descrs)
                        pert = ref_inv([g + t_ + 8 * EPS * onp.abs(g) for g, t_ in zip(G, tol)], descrs)
                    ok_dom = all(onp.all(onp.isfinite(b)) and onp.all(onp.isfinite(p)) for b, p in zip(base, pert))
                    if ok_dom:
                        tol_inv = [4 * onp.abs(p - b) + 64 * EPS * (onp.abs(b) + 1) for b, p in zip(base, pert)]
                        # only assert where the inverse is reasonably conditioned
                        if all((t_ < 0.05).all() for t_ in tol_inv):
                            close(back, X, tol_inv, "chain.inv_roundtrip", extra=dict(chain=case["chain"]))
                            res.label("chain_inv_checked")
                        else:
                            res.label("chain_inv_illconditioned")
    else:
        res.label("chain_overflow_skipped")

    # ---- Shared: copy location B into location A
    paths = [p for p, _ in lv]
    ia, ib = case["shared"][0] % len(paths), case["shared"][1] % len(paths)
    if ia != ib and lv[ia][1]["L"] == lv[ib][1]["L"]:
        pa, pb = paths[ia], paths[ib]

        def getter(path):
            def g(t):
                for k in path:
                    t = getattr(t, k) if (not isinstance(t, (dict, list))) else t[k]
                return t

            return g

        sh = Shared.init(where=getter(pa), replace_fn=getter(pb))
        # domain: the shared location holds what inverse_fn returns (None)
        import equinox as eqx

        x_dom = eqx.tree_at(getter(pa), x, None, is_leaf=lambda v: v is None)
        app = sh.apply(x_dom)
        if not onp.array_equal(onp.asarray(getter(pa)(app)), onp.asarray(getter(pb)(x))):
            res.fail("shared.apply_copies", dict(a=list(map(str, pa)), b=list(map(str, pb))))
        # everything else untouched
        app_wo = eqx.tree_at(getter(pa), app, None, is_leaf=lambda v: v is None)
        if jax.tree_util.tree_structure(app_wo) != jax.tree_util.tree_structure(x_dom) or not all(
            onp.array_equal(a, b) for a, b in zip(flat(app_wo), flat(x_dom))
        ):
            res.fail("shared.apply_rest_untouched")
        inv = sh.inv(app)
        if jax.tree_util.tree_structure(inv) != jax.tree_util.tree_structure(x_dom) or not all(
            onp.array_equal(a, b) for a, b in zip(flat(inv), flat(x_dom))
        ):
            res.fail("shared.roundtrip")
        res.label("shared_checked")

    # ---- Extend.apply(partial): base on missing leaves, supplied value elsewhere
    drop = case["drop"]
    cnt = [0]

    def partial(s):
        """Replace some leaves / whole subtrees by None."""
        i = cnt[0]
        cnt[0] += 1
        if s is None:
            return None
        if drop[i % len(drop)]:
            return None
        if isinstance(s, dict) and "L" in s:
            return s
        if isinstance(s, dict):
            return {k: (v if k == "__dc__" else partial(v)) for k, v in s.items()}
        return [partial(v) for v in s]

    pspec = {k: partial(v) for k, v in spec.items()}
    supplied = build(pspec, lambda s: f32(_arr(s["x"], s["L"]) + 1000.0))
    base_tree = x
    try:
        ext = Extend.init(base_tree, supplied)
        got = ext.apply(supplied)
    except Exception as e:  # Extend.apply is documented to work for any partial tree derived from the base
        res.fail("extend.apply_raises", dict(err=f"{type(e).__name__}: {str(e)[:200]}"))
        got = None
    if got is not None and same_struct(got, "extend.apply"):
        sup_paths = {p for p, _ in leaves_of(pspec)}
        want = [
            (_arr(s["x"], s["L"]) + onp.float32(1000.0)).astype(onp.float64) if p in sup_paths else _arr(s["x"], s["L"]).astype(onp.float64)
            for p, s in lv
        ]
        # order of leaves_of follows dict insertion order; jax sorts dict keys -> compare by path via rebuilding
        want_tree = build(spec, lambda s: None)  # placeholder, replaced below
        idx = {p: i for i, (p, _) in enumerate(lv)}

        def rebuild(s, path=()):
            if s is None:
                return None
            if isinstance(s, dict) and "L" in s:
                return want[idx[path]]
            if isinstance(s, dict) and s.get("__dc__"):
                return _dc()(x=rebuild(s["x"], path + ("x",)), y=rebuild(s["y"], path + ("y",)))
            if isinstance(s, dict):
                return {k: rebuild(v, path + (k,)) for k, v in s.items()}
            return [rebuild(v, path + (i,)) for i, v in enumerate(s)]

        want_tree = rebuild(spec)
        W = flat(want_tree)
        close(got, W, [0.0 * w for w in W], "extend.apply_fills_missing_only")
        n_sup = len(sup_paths)
        if 0 < n_sup < len(lv):
            res.label("extend_partial_mixed")

    # ---- classification
    n_leaves = len(lv)
    nested = max(depth_of(v) for v in spec.values()) >= 1
    res.label(f"chain_len_{len(case['chain'])}")
    if has_none(spec):
        res.label("has_none_leaf")
    if nested:
        res.label("nested")
    res.nontrivial = n_leaves >= 2 and (has_none(spec) or nested) and "chain_order_observable" in res.classes
    return res


def regressions():
    """Shrunk failures found by this check on the pinned tree; plain cases that run first in both tiers."""
    leaf = lambda shape, n: {"L": shape, "x": [0.0] * n, "lo": [0.0] * n, "gap": [1.0] * n}
    return [
        # fixed in 53eef7f: Denormalize.init could not OR leaves of shapes (3,) and (2,2)
        {"tree": {"p": None, "q": leaf([3], 3), "r": leaf([2, 2], 4)}, "chain": ["denorm"], "shift": 0.0, "scale2": 1.0,
         "drop": [False] * 8, "shared": [0, 0]},
    ]
