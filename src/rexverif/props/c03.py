"""C03 — recorded episodes are causal and loss-free on every connection."""
from rexverif import asynccase, refmodel
from rexverif.common import CaseResult

ID = "C03"
TIERS = {
    "quick": dict(examples=96, shards=16, timeout_s=1500, shrink_s=120),
    "thorough": dict(examples=1000, shards=16, timeout_s=7200, shrink_s=300),
}
RULE = (
    "Same system generator as C04 (incl. tie-pressure class: deterministic delays that are multiples of a base tick so that "
    "arrival == step start happens, and heavy jitter), both clocks (wall clock on ~10% of cases, short episodes). Each "
    "episode record is checked against a validity predicate written from the docs: gap-free non-overlapping steps; per "
    "connection no loss/duplication/reordering, FIFO, received after sent, never consumed by a step that started before "
    "arrival, consumed by exactly the policy's step (LATEST / skip / BUFFER / blocking phase rule), window contents = last "
    "`window` consumed messages oldest first. Non-trivial = some connection has steps consuming 0 and steps consuming "
    ">= 2 messages, or a FIFO clamp / equal arrival, or an exact tie between an arrival and a step start occurred."
)
ASSUMPTIONS = [
    "supported class of DESIGN §2.1; hangs are counted and left to C05",
    "wall clock: only delivery / ordering / causality clauses (times are measured)",
    "non-blocking rules compare recorded values exactly; the blocking rule recomputes nominal times and is tie-tolerant within 2 us",
]


def strategy(tier):
    return asynccase.async_case(wall_fraction=10)


def check(case) -> CaseResult:
    res = CaseResult()

    def on_episode(e, n, outs, rec, run):
        cfg = refmodel.config_of(run.nodes)
        refmodel.check_causality(rec, cfg, case["spec"], res, timed=case["clock"] == "SIMULATED")

    asynccase.drive(case, res, on_episode)
    res.label("cls_" + case["spec"]["cls"], "mode_" + case["mode"], "clock_" + case["clock"])
    res.nontrivial = any(
        l in res.classes for l in ("some_steps_consume_0_and_some_2plus", "fifo_clamp_or_equal_arrival", "nonblocking_tie", "blocking_tie")
    )
    return res


def regressions():
    """fixed in 12ee856: a non-blocking skip+BUFFER connection consumed, in the step starting at t, a message arriving at t."""
    det = lambda c: {"k": "det", "c": c}
    return [
        {"clock": "SIMULATED", "mode": "step", "spec": {
            "cls": "tie", "seed": 0, "supervisor": "n0", "episodes": [4, 9], "jit": {"n0": False, "n1": False},
            "nodes": [
                {"name": "n0", "rate": 20, "delay": det(0.02), "exp_delay": None, "advance": False, "scheduling": "FREQUENCY"},
                {"name": "n1", "rate": 50, "delay": det(0.06), "exp_delay": None, "advance": False, "scheduling": "FREQUENCY"}],
            "conns": [
                {"src": "n0", "dst": "n1", "blocking": True, "skip": False, "jitter": "LATEST", "window": 1, "delay": det(0.01), "exp_delay": None},
                {"src": "n1", "dst": "n0", "blocking": False, "skip": True, "jitter": "BUFFER", "window": 4, "delay": det(0.0), "exp_delay": None}]}},
    ]
