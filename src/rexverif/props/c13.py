"""C13 — recording is faithful and never changes the execution (both runtimes)."""
import functools

import numpy as onp
from hypothesis import strategies as st

from rexverif import asynccase, compiledrun, sysgen
from rexverif.asyncrun import AsyncRun, Hang
from rexverif.common import CaseResult

ID = "C13"
TIERS = {
    "quick": dict(examples=48, shards=16, timeout_s=2400, shrink_s=180),
    "thorough": dict(examples=320, shards=16, timeout_s=10800, shrink_s=300),
}
RULE = (
    "Hypothesis draws a node system (as C01), a combination of the five record settings (params/rng/inputs/state/output), "
    "max_records in {unlimited, 1, small K}, and for the compiled runtime init_record flags, supergraph mode and prune. The "
    "system is run twice on the threaded runtime (everything recorded vs the drawn settings) and twice compiled (no record "
    "vs init_record); probe nodes keep their own host-side trace. Oracle: (1) every recorded row equals the trace row of that "
    "(node, seq) in every recorded field, state before step k+1 == state after step k, disabled fields are None, never-executed "
    "compiled rows stay -1, truncation keeps the first K rows; (2) traces and final graph states are bit-identical whatever "
    "is recorded. Non-trivial = at least one setting is off or truncated and >= 10 rows were compared; distinct = hash of the case."
)
ASSUMPTIONS = [
    "threaded runs under the simulated clock (determinism across the two runs is C02's property; a divergence here is reported as execution_changed)",
    "compiled records do not contain inputs records of connections (documented todo in rex); only step rows are judged",
    "supported class of DESIGN §2.1; hangs are counted and left to C05",
]

FLAGS = ("params", "rng", "inputs", "state", "output")


@st.composite
def _case(draw, tier):
    spec = draw(sysgen.system_spec(max_eps=1, min_steps=4, max_steps=9))
    spec["carry"] = False
    rs = {f: draw(st.booleans()) for f in FLAGS}
    crs = {f: draw(st.booleans()) for f in FLAGS}
    return dict(
        spec=spec,
        rs=rs,
        max_records=draw(st.sampled_from([None, None, 1, 3, 5])),
        crs=crs,
        mode=draw(st.sampled_from(compiledrun.MODES)),
        prune=draw(st.booleans()),
    )


def strategy(tier):
    return _case(tier)


def _norm_seq(x):
    return onp.maximum(onp.asarray(x), -1)


def _cmp_row(res, clause, node, k, trow, steps, idx, enabled, conn_names):
    """steps: stacked record rows; idx: row index; trow: trace row. Returns False on mismatch."""

    def bad(field, got, want):
        res.fail(clause, dict(node=node, seq=k, field=field, recorded=got, traced=want))
        return False

    if int(steps.seq[idx]) != int(trow["seq"]):
        return bad("seq", steps.seq[idx], trow["seq"])
    if onp.float32(steps.ts_start[idx]) != onp.float32(trow["ts"]):
        return bad("ts_start", steps.ts_start[idx], trow["ts"])
    if enabled["rng"] and not onp.array_equal(onp.asarray(steps.rng[idx]), onp.asarray(trow["rng"])):
        return bad("rng", steps.rng[idx], trow["rng"])
    if enabled["state"]:
        if int(steps.state.cnt[idx]) != int(trow["cnt"]) or int(steps.state.dig[idx]) != int(trow["dig"]):
            return bad("state", [steps.state.cnt[idx], steps.state.dig[idx]], [trow["cnt"], trow["dig"]])
    if enabled["inputs"]:
        for name, tin in trow["ins"].items():
            ri = steps.inputs[name]
            if not onp.array_equal(_norm_seq(ri.seq[idx]), onp.asarray(tin["seq"])):
                return bad("inputs.seq", ri.seq[idx], tin["seq"])
            if not onp.array_equal(onp.asarray(ri.ts_sent[idx], dtype=onp.float32), onp.asarray(tin["ts_sent"])):
                return bad("inputs.ts_sent", ri.ts_sent[idx], tin["ts_sent"])
            if not onp.array_equal(onp.asarray(ri.ts_recv[idx], dtype=onp.float32), onp.asarray(tin["ts_recv"])):
                return bad("inputs.ts_recv", ri.ts_recv[idx], tin["ts_recv"])
            if not onp.array_equal(onp.asarray(ri.data.a[idx]), onp.asarray(tin["a"])):
                return bad("inputs.data", ri.data.a[idx], tin["a"])
    if enabled["output"] and idx < len(steps.output.a):
        if not onp.array_equal(onp.asarray(steps.output.a[idx]), onp.asarray(trow["out"])):
            return bad("output", steps.output.a[idx], trow["out"])
    return True


def _traces_equal(res, clause, TA, TB):
    from rexverif.props.c01 import compare_rows

    n = 0
    for key in TA.keys() & TB.keys():
        if not compare_rows(res, key, TA[key][0], TB[key][0], clause_prefix=clause + "."):
            return -1
        n += 1
    return n


def check(case) -> CaseResult:
    import jax

    from rex.base import ExperimentRecord

    res = CaseResult()
    spec = case["spec"]
    rs, K = case["rs"], case["max_records"]
    res.label("cls_" + spec["cls"], "maxrec_" + str(K))
    if asynccase.CONTAMINATED[0]:
        res.rejected = "skipped: an earlier case of this worker hung"
        return res
    runA = runB = None
    n_rows = 0
    try:
        sup = spec["supervisor"]
        n = spec["episodes"][0]
        # ---------------- threaded: everything recorded vs drawn settings
        runA = AsyncRun(spec)
        _, recA = runA.episode_run(runA.start_state(0), n, budget_s=30.0)
        TA = runA.trace.by_key()
        runA.trace.clear()
        runB = AsyncRun(spec, record_settings=rs, max_records=K if K is not None else 20000)
        _, recB = runB.episode_run(runB.start_state(0), n, budget_s=30.0)
        TB = runB.trace.by_key()
        if _traces_equal(res, "C13.threaded_execution_changed_by_recording", TA, TB) < 0:
            return res
        all_on = {f: True for f in FLAGS}
        for rec, T, enabled, limit in ((recA, TA, all_on, None), (recB, TB, rs, K)):
            for name, nr in rec.nodes.items():
                st_ = nr.steps
                rows = len(onp.atleast_1d(st_.seq))
                executed = sorted(k for (nm, e, k) in T if nm == name)
                if limit is not None and rows > limit:
                    res.fail("C13.max_records_exceeded", dict(node=name, rows=rows, max_records=limit))
                    return res
                if limit is not None and rows < min(limit, len(executed)):
                    res.fail("C13.truncation_dropped_early_rows", dict(node=name, rows=rows, max_records=limit, executed=len(executed)))
                    return res
                if (enabled["params"] and nr.params is None) or (not enabled["params"] and nr.params is not None):
                    res.fail("C13.params_setting_ignored", dict(node=name, enabled=enabled["params"]))
                    return res
                for f in ("rng", "inputs", "state", "output"):
                    val = getattr(st_, f)
                    empty = val is None or (f == "inputs" and not val and not runA.nodes[name].inputs) or len(jax.tree_util.tree_leaves(val)) == 0
                    has_leaves = not empty
                    if f == "inputs" and not runA.nodes[name].inputs:
                        continue  # a node without inputs records an empty dict either way
                    if enabled[f] != has_leaves:
                        res.fail("C13.field_setting_ignored", dict(node=name, field=f, enabled=enabled[f], recorded=has_leaves))
                        return res
                if not onp.array_equal(onp.atleast_1d(st_.seq), onp.arange(rows)):
                    res.fail("C13.recorded_rows_not_the_first", dict(node=name, seq=onp.atleast_1d(st_.seq).tolist()[:10]))
                    return res
                for idx in range(rows):
                    k = int(st_.seq[idx])
                    if (name, 0, k) not in T:
                        if name == sup and k >= n:
                            continue  # trailing supervisor row interrupted by stop(): never executed
                        res.fail("C13.row_without_execution", dict(node=name, seq=k))
                        return res
                    trow = T[(name, 0, k)][0]
                    if not _cmp_row(res, "C13.threaded_row_differs_from_execution", name, k, trow, st_, idx, enabled, None):
                        return res
                    # state before step k+1 == state after step k
                    if enabled["state"] and idx + 1 < rows and (name, 0, k + 1) in T:
                        if int(st_.state.dig[idx + 1]) != int(trow["new_dig"]) or int(st_.state.cnt[idx + 1]) != int(trow["cnt"]) + 1:
                            res.fail("C13.state_before_next_is_not_state_after", dict(node=name, seq=k))
                            return res
                    n_rows += 1
        runB.close()
        runB = None
        # ---------------- compiled: no record vs init_record(flags)
        cg = ExperimentRecord(episodes=[recA]).to_graph()
        try:
            graph = compiledrun.compile_graph(runA.nodes, sup, cg, mode=case["mode"], prune=case["prune"])
        except ValueError as ex:
            if "There are no nodes in the partition" in str(ex):
                res.label("rejected_empty_partition")
                graph = None
            else:
                raise
        if graph is not None and int(graph.max_steps) >= 1:
            N = int(graph.max_steps)
            crs = case["crs"]
            roll = jax.jit(functools.partial(graph.rollout, max_steps=N, carry_only=True))
            gs = compiledrun.init_like(graph, runA.starts[0], eps=0)
            F0 = roll(gs)
            jax.block_until_ready(F0.step)
            T0 = runA.trace.by_key()
            runA.trace.clear()
            try:
                gs1 = graph.init_record(gs, **crs)
                F1 = roll(gs1)
                jax.block_until_ready(F1.step)
            except (IndexError, KeyError, TypeError, ValueError) as ex:  # the same graph just ran without recording
                res.fail("C13.enabling_recording_makes_compiled_execution_raise", dict(err=f"{type(ex).__name__}: {str(ex)[:160]}", flags=crs, mode=case["mode"], prune=case["prune"]))
                return res
            T1 = runA.trace.by_key()
            runA.trace.clear()
            if set(T0) != set(T1):
                res.fail("C13.compiled_execution_changed_by_recording", dict(only_without=[list(k) for k in list(set(T0) - set(T1))[:3]], only_with=[list(k) for k in list(set(T1) - set(T0))[:3]]))
                return res
            if _traces_equal(res, "C13.compiled_execution_changed_by_recording", T0, T1) < 0:
                return res
            a = jax.tree_util.tree_leaves(F0.replace(aux=None, timings_eps=None))
            b = jax.tree_util.tree_leaves(F1.replace(aux=None, timings_eps=None))
            if len(a) != len(b) or not all(onp.array_equal(onp.asarray(x), onp.asarray(y)) for x, y in zip(a, b)):
                res.fail("C13.compiled_final_state_changed_by_recording", dict(flags=crs))
                return res
            rec = jax.tree_util.tree_map(onp.asarray, F1.aux["record"])
            in_graph = {s_.kind for s_ in graph.timings.slots.values()}
            if set(rec.nodes) != in_graph:
                res.fail("C13.compiled_record_node_set", dict(recorded=sorted(rec.nodes), in_supergraph=sorted(in_graph)))
                return res
            for name, nr in rec.nodes.items():
                st_ = nr.steps
                rows = len(st_.seq)
                executed = {k for (nm, e, k) in T1 if nm == name}
                if (crs["params"] and nr.params is None) or (not crs["params"] and nr.params is not None):
                    res.fail("C13.params_setting_ignored", dict(node=name, enabled=crs["params"], runtime="compiled"))
                    return res
                for f in ("rng", "inputs", "state", "output"):
                    if f == "inputs" and not runA.nodes[name].inputs:
                        continue
                    has = getattr(st_, f) is not None and len(jax.tree_util.tree_leaves(getattr(st_, f))) > 0
                    if has != crs[f]:
                        res.fail("C13.field_setting_ignored", dict(node=name, field=f, enabled=crs[f], recorded=has, runtime="compiled"))
                        return res
                lost = sorted(k for k in executed if k >= rows)
                if lost:
                    res.fail("C13.executed_step_missing_from_compiled_record", dict(node=name, rows=rows, executed=len(executed), first_missing_seq=lost[0], mode=case["mode"]))
                    return res
                for idx in range(rows):
                    if idx in executed or (name == sup and idx < N + 1 and int(st_.seq[idx]) >= 0):
                        if idx not in executed:
                            # the supervisor's inputs of step N are prepared (row written) although the step is not executed
                            continue
                        trow = T1[(name, 0, idx)][0]
                        if not _cmp_row(res, "C13.compiled_row_differs_from_execution", name, idx, trow, st_, idx, crs, None):
                            return res
                        if crs["state"] and (idx + 1) in executed and idx + 1 < rows:
                            if int(st_.state.dig[idx + 1]) != int(trow["new_dig"]):
                                res.fail("C13.state_before_next_is_not_state_after", dict(node=name, seq=idx, runtime="compiled"))
                                return res
                        n_rows += 1
                    else:
                        # never executed: the row is still what init_record put there, and it is marked with seq == -1
                        init_rows = jax.tree_util.tree_leaves(jax.tree_util.tree_map(onp.asarray, gs1.aux["record"].nodes[name].steps))
                        leaves = jax.tree_util.tree_leaves(st_)
                        if int(st_.seq[idx]) != -1 or not all(onp.array_equal(onp.asarray(l[idx]), onp.asarray(i0[idx])) for l, i0 in zip(leaves, init_rows)):
                            res.fail("C13.unexecuted_row_not_minus_one", dict(node=name, row=idx, seq=int(st_.seq[idx])))
                            return res
                        res.label("unexecuted_rows_checked")
        res.count("rows_compared", n_rows)
        res.nontrivial = n_rows >= 10 and (not all(rs.values()) or K is not None or not all(case["crs"].values()))
    except Hang:
        res.rejected = "hang"
        asynccase.CONTAMINATED[0] = True
    except TypeError as ex:
        if "tree_map() missing 1 required positional argument" in str(ex):
            res.rejected = "get_record raises on a connection/node without any recorded row"
        else:
            raise
    finally:
        for r in (runA, runB):
            if r is not None:
                r.close()
    return res


def regressions():
    return []
