"""C08 — input windows read exactly the scheduled messages from the output ring buffers."""
import functools

import numpy as onp
from hypothesis import strategies as st

from rexverif import compiledrun, rawgraphs, sysgen
from rexverif.common import CaseResult

ID = "C08"
TIERS = {
    "quick": dict(examples=128, shards=16, timeout_s=2400, shrink_s=180),
    "thorough": dict(examples=1280, shards=16, timeout_s=10800, shrink_s=300),
}
RULE = (
    "Hypothesis draws a computation graph (independent generator of C07: ties, ragged episodes, windows 1-4, long vertices), "
    "supergraph mode, prune, extra_padding 0-3, optional admissible user buffer_sizes (>= the computed minimum, int or list), "
    "a starting episode (also out of range) and a starting step. (a) dynamic: the compiled graph is rolled out under jit with "
    "probe nodes whose payload is (producer id, seq); every window entry of every executed step must carry the payload of the "
    "sequence number Graph.timings names for that entry (default output for negative numbers and for producers scheduled "
    "before the starting step). (b) static: the schedule is replayed in (partition, generation) order against rings of the "
    "sizes rex allocated: reads of a generation happen before its writes, each read of seq s must find s in cell s mod size, "
    "negative reads must find the default in cell size-1. Non-trivial = some ring wrapped (a seq >= ring size was written) "
    "and >= 20 window entries were checked; distinct = hash of the case."
)
ASSUMPTIONS = [
    "dynamic runs stay inside the documented horizon (graph.max_steps)",
    "ring sizes are read from the buffers Graph.init() allocates (public GraphState.buffer)",
    "user buffer_sizes below the computed minimum must be rejected by the constructor (AssertionError) - counted as clean rejection",
]


@st.composite
def _case(draw, tier):
    raw = draw(rawgraphs.raw_case())
    return dict(
        raw=raw,
        mode=draw(st.sampled_from(compiledrun.MODES)),
        prune=draw(st.booleans()),
        extra_padding=draw(st.sampled_from([0, 0, 1, 3])),
        user_sizes=draw(st.sampled_from(["none", "none", "plus", "list", "too_small"])),
        delta=draw(st.integers(0, 3)),
        start_eps=draw(st.integers(-1, 4)),
        start_step=draw(st.integers(0, 6)),
    )


def strategy(tier):
    return _case(tier)


def ring_sizes(gs):
    import jax

    return {k: int(jax.tree_util.tree_leaves(v)[0].shape[0]) for k, v in gs.buffer.items()}


def static_replay(raw, graph, sizes, res, prefix="C08."):
    sched = compiledrun.schedule_of(graph)
    sup = raw["supervisor"]
    E, P = next(iter(sched.values()))["run"].shape
    gens = sorted({s["generation"] for s in sched.values()})
    wrapped = False
    n_reads = 0
    for e in range(E):
        rings = {k: [None] * n for k, n in sizes.items()}  # None = default output
        for p in range(P):
            for g in gens:
                writes = []
                for sname, s in sched.items():
                    if s["generation"] != g or not s["run"][e, p]:
                        continue
                    kind, k = s["kind"], int(s["seq"][e, p])
                    for src, w in s["windows"].items():
                        size = sizes.get(src)
                        if size is None:
                            res.fail(prefix + "no_buffer_for_producer", dict(src=src, reader=kind))
                            return None
                        for so in w["seq"][e, p]:
                            so = int(so)
                            cell = rings[src][so % size]
                            n_reads += 1
                            if so >= 0 and cell != so:
                                res.fail(prefix + "static_read_finds_wrong_message", dict(eps=e, partition=p, reader=kind, reader_seq=k, src=src, want_seq=so, found=cell, ring=size))
                                return None
                            if so < 0 and cell is not None:
                                res.fail(prefix + "static_default_entry_overwritten", dict(eps=e, partition=p, reader=kind, reader_seq=k, src=src, found=cell, ring=size))
                                return None
                    writes.append((kind, k))
                for kind, k in writes:  # outputs are written after the generation's reads
                    if kind in rings:
                        rings[kind][k % sizes[kind]] = k
                        if k >= sizes[kind]:
                            wrapped = True
    return dict(wrapped=wrapped, reads=n_reads)


def check(case) -> CaseResult:
    import jax

    res = CaseResult()
    raw = case["raw"]
    res.label("mode_" + case["mode"], "prune_" + str(case["prune"]), "sizes_" + case["user_sizes"])
    from rexverif.probes import Trace

    trace = Trace()
    nodes = sysgen.build_nodes(rawgraphs.to_sys_spec(raw), trace=trace)
    nid = {n: nodes[n].nid for n in nodes}
    graphs, cg = rawgraphs.to_rex_graph(raw)
    sup = raw["supervisor"]
    try:
        graph = compiledrun.compile_graph(nodes, sup, cg, mode=case["mode"], prune=case["prune"], extra_padding=case["extra_padding"])
    except ValueError as ex:
        if "There are no nodes in the partition" in str(ex):
            res.rejected = "empty partition (supervisor depends on nothing)"
            return res
        raise
    try:
        gs0 = graph.init(jax.random.PRNGKey(0))
    except AssertionError as ex:
        res.fail("C08.init_rejects_its_own_buffer_sizes", dict(err=str(ex)[:160], mode=case["mode"], prune=case["prune"]))
        return res
    sizes = ring_sizes(gs0)
    if case["user_sizes"] != "none":
        base_sizes = {k: v - case["extra_padding"] for k, v in sizes.items()}
        if case["user_sizes"] == "too_small":
            big = [k for k, v in base_sizes.items() if v >= 2]
            if not big:
                res.rejected = "no ring to shrink"
                return res
            user = {big[0]: base_sizes[big[0]] - 1}
            try:
                compiledrun.compile_graph(nodes, sup, cg, mode=case["mode"], prune=case["prune"], buffer_sizes=user)
            except AssertionError:
                res.rejected = "too small buffer_sizes rejected (expected)"
                res.label("too_small_rejected")
                return res
            # accepted although smaller than the minimum rex itself computed: only fine if that minimum was not tight
            graph = compiledrun.compile_graph(nodes, sup, cg, mode=case["mode"], prune=case["prune"], buffer_sizes=user, extra_padding=case["extra_padding"])
        else:
            user = {}
            for k, v in base_sizes.items():
                user[k] = (v + case["delta"]) if case["user_sizes"] == "plus" else [max(1, v - 1), v + case["delta"]]
            graph = compiledrun.compile_graph(nodes, sup, cg, mode=case["mode"], prune=case["prune"], buffer_sizes=user, extra_padding=case["extra_padding"])
        gs0 = graph.init(jax.random.PRNGKey(0))
        sizes = ring_sizes(gs0)
    # ---------------- (b) static replay
    st_ = static_replay(raw, graph, sizes, res)
    if st_ is None:
        return res
    if st_["wrapped"]:
        res.label("ring_wrapped")
    sched_ = compiledrun.schedule_of(graph)
    per_kind = {}
    for s_ in sched_.values():
        per_kind[s_["kind"]] = per_kind.get(s_["kind"], 0) + s_["run"].astype(int)
    if any((v >= 11).any() for v in per_kind.values()):
        res.label("kind_runs_11plus_times_in_a_partition")
    # ---------------- (a) dynamic
    E = len(raw["episodes"])
    P = int(graph.max_steps) + 1
    eps_eff = min(max(case["start_eps"], 0), E - 1)
    s0 = min(case["start_step"], max(P - 2, 0))
    N = (P - 1) - s0
    n_entries = 0
    if N >= 1:
        gs = graph.init(jax.random.PRNGKey(1), starting_eps=case["start_eps"], starting_step=s0)
        if int(gs.eps) != eps_eff:
            res.fail("C08.starting_eps_not_clipped", dict(given=case["start_eps"], got=int(gs.eps), want=eps_eff))
            return res
        out = jax.jit(functools.partial(graph.rollout, max_steps=N, carry_only=True))(gs)
        jax.block_until_ready(out.step)
        B = trace.by_key()
        sched = compiledrun.schedule_of(graph)
        ran = {}  # (kind, seq) -> partition in this run
        for sname, s in sched.items():
            for p in range(s0, s0 + N):
                if s["run"][eps_eff, p] and not (s["kind"] == sup and False):
                    ran[(s["kind"], int(s["seq"][eps_eff, p]))] = (p, s["generation"], sname)
        # steps of one node must execute in sequence order: the probe's own step counter (part of its state) tells
        rank = {}
        for kind_ in {k_[0] for k_ in ran}:
            for i_, k_ in enumerate(sorted(q for (kk, q) in ran if kk == kind_)):
                rank[(kind_, k_)] = i_
        for (kind, k), (p, g, sname) in ran.items():
            rows = B.get((kind, eps_eff, k))
            if rows and kind != sup and int(rows[0]["cnt"]) != rank[(kind, k)]:
                res.fail("C08.steps_of_a_node_executed_out_of_sequence_order", dict(node=kind, seq=k, executed_as_number=int(rows[0]["cnt"]), want=rank[(kind, k)], mode=case["mode"], prune=case["prune"]))
                return res
            if not rows:
                res.fail("C08.scheduled_step_not_executed", dict(kind=kind, seq=k, partition=p))
                return res
            row = rows[0]
            s = sched[sname]
            for src, tin in row["ins"].items():
                real_src = nodes[kind].inputs[src].output_node.name
                want_seq = onp.maximum(s["windows"][real_src]["seq"][eps_eff, p], -1)
                got = onp.asarray(tin["a"])
                for j, so in enumerate(want_seq.tolist()):
                    produced_here = (real_src, so) in ran and ran[(real_src, so)][:2] < (p, g)
                    exp_seq = so if (so >= 0 and produced_here) else -1
                    n_entries += 1
                    if int(got[j][0]) != nid[real_src] or int(got[j][1]) != exp_seq:
                        res.fail(
                            "C08.window_entry_payload_is_not_the_scheduled_message",
                            dict(reader=kind, reader_seq=k, src=real_src, entry=j, scheduled_seq=so, expected_payload_seq=exp_seq, payload=got[j].tolist()[:2],
                                 ring=sizes.get(real_src), mode=case["mode"], prune=case["prune"], start_step=s0, extra_padding=case["extra_padding"], sizes=case["user_sizes"]),
                        )
                        return res
                    if not onp.array_equal(onp.maximum(onp.asarray(tin["seq"]), -1), want_seq):
                        res.fail("C08.window_seq_differs_from_schedule", dict(reader=kind, reader_seq=k, src=real_src, got=onp.asarray(tin["seq"]).tolist(), want=want_seq.tolist()))
                        return res
        if s0 > 0:
            res.label("start_step_gt_0")
        if case["start_eps"] != eps_eff:
            res.label("start_eps_clipped")
    res.count("window_entries_checked", n_entries)
    res.count("static_reads", st_["reads"])
    res.nontrivial = st_["wrapped"] and (n_entries + st_["reads"]) >= 20
    return res


def regressions():
    """fixed in 7121fda: ring size 0 for a producer whose real outputs are never read (prune=False, nothing delivered)."""
    raw = {"conns": [{"back": False, "dst": "n1", "src": "n0", "window": 1}, {"back": True, "dst": "n0", "src": "n1", "window": 1}],
           "episodes": [{"edges": [{"recv": []}, {"recv": []}], "verts": {"n0": {"end": [0, 1], "start": [0, 1]}, "n1": {"end": [0], "start": [0]}}}],
           "names": ["n0", "n1"], "supervisor": "n0"}
    return [dict(raw=raw, mode="MCS", prune=False, extra_padding=0, user_sizes="none", delta=0, start_eps=0, start_step=0)]
