"""C07 — the compiled schedule runs every graph vertex once, in dependency order."""
import numpy as onp
from hypothesis import strategies as st

from rexverif import compiledrun, rawgraphs, sysgen
from rexverif.common import CaseResult

ID = "C07"
TIERS = {
    "quick": dict(examples=240, shards=16, timeout_s=2400, shrink_s=180),
    "thorough": dict(examples=1600, shards=16, timeout_s=10800, shrink_s=300),
}
RULE = (
    "Hypothesis draws a computation graph directly (independent generator built from the Vertex/Edge docstrings: 2-4 nodes, "
    "forward and skipped back connections, windows 1-4, 1-3 episodes of ragged length, all times on a 10 ms grid so that "
    "arrival == step start ties are common, unreceived tail messages) plus supergraph mode, prune and optionally an initial "
    "supergraph taken from a sibling compile. Graph(...) is built and Graph.timings is judged by a validity predicate: every "
    "run slot is a real vertex with its own seq/times, no vertex twice, all required vertices present (ancestors of supervisor "
    "steps inside the horizon; with prune off everything that finishes before such a step and does not depend on it), order "
    "= (partition, generation) respects stateful and window dependencies, supervisor step p closes partition p, windows == "
    "reference window model. Non-trivial = >= 2 episodes of different supervisor length or >= 1 masked slot; distinct = hash of the case."
)
ASSUMPTIONS = [
    "vertices executed although nothing requires them are allowed (the property demands presence, uniqueness, order - not minimality)",
    "on episodes truncated by a shorter sibling, 'finishes before a supervisor step' is asserted for vertices that are not needed only by steps beyond the horizon (strong reading counted separately)",
    "the external supergraph library is exercised through rex only",
]


@st.composite
def _case(draw, tier):
    raw = draw(rawgraphs.raw_case(trainable=True))
    return dict(raw=raw, mode=draw(st.sampled_from(compiledrun.MODES)), prune=draw(st.booleans()), s_init=draw(st.integers(0, 4)) == 0)


def strategy(tier):
    return _case(tier)


def validate_schedule(case, graph, res, prefix="C07.", extra=None):
    """extra: {conn index: window extension} for trainable delays."""
    raw = case["raw"]
    sup = raw["supervisor"]
    sched = compiledrun.schedule_of(graph)
    E = len(raw["episodes"])
    P = min(len(ep["verts"][sup]["start"]) for ep in raw["episodes"])
    some = next(iter(sched.values()))
    if some["run"].shape != (E, P):
        res.fail(prefix + "horizon", dict(got=list(some["run"].shape), want=[E, P]))
        return False
    gens = max(s["generation"] for s in sched.values())
    masked_any = False
    for e in range(E):
        ep = raw["episodes"][e]
        pos = {}
        for sname, s in sched.items():
            for p in range(P):
                if not s["run"][e, p]:
                    masked_any = True
                    continue
                kind, k = s["kind"], int(s["seq"][e, p])
                K = len(ep["verts"][kind]["start"])
                if not (0 <= k < K):
                    res.fail(prefix + "slot_runs_nonexistent_vertex", dict(eps=e, slot=sname, partition=p, kind=kind, seq=k, K=K))
                    return False
                if abs(s["ts_start"][e, p] - ep["verts"][kind]["start"][k] * rawgraphs.TICK) > 1e-6 or abs(s["ts_end"][e, p] - ep["verts"][kind]["end"][k] * rawgraphs.TICK) > 1e-6:
                    res.fail(prefix + "slot_carries_wrong_times", dict(eps=e, slot=sname, partition=p, kind=kind, seq=k, ts_start=s["ts_start"][e, p], want=ep["verts"][kind]["start"][k] * rawgraphs.TICK))
                    return False
                if (kind, k) in pos:
                    res.fail(prefix + "vertex_scheduled_twice", dict(eps=e, kind=kind, seq=k, first=pos[(kind, k)], second=[p, s["generation"]]))
                    return False
                pos[(kind, k)] = (p, s["generation"])
                # (5) windows
                for ci, c in enumerate(raw["conns"]):
                    if c["dst"] != kind:
                        continue
                    ext = (extra or {}).get(ci, 0)
                    want = rawgraphs.window_model(raw, e, ci, k, ext)
                    got = onp.maximum(s["windows"][c["src"]]["seq"][e, p], -1).tolist()
                    if got != want:
                        res.fail(prefix + "window_differs_from_model", dict(eps=e, kind=kind, seq=k, src=c["src"], got=got, want=want, window=c["window"], ext=ext))
                        return False
                    for j, so in enumerate(want):
                        if so >= 0:
                            ws = s["windows"][c["src"]]
                            if abs(ws["ts_sent"][e, p][j] - ep["verts"][c["src"]]["end"][so] * rawgraphs.TICK) > 1e-6 or abs(ws["ts_recv"][e, p][j] - ep["edges"][ci]["recv"][so] * rawgraphs.TICK) > 1e-6:
                                res.fail(prefix + "window_timestamps", dict(eps=e, kind=kind, seq=k, src=c["src"], j=j))
                                return False
        # supervisor step p closes partition p
        for p in range(P):
            if pos.get((sup, p)) != (p, gens):
                res.fail(prefix + "supervisor_step_does_not_close_its_partition", dict(eps=e, p=p, got=pos.get((sup, p)), want=[p, gens]))
                return False
        for sname, s in sched.items():
            if s["generation"] == gens and s["kind"] != sup:
                res.fail(prefix + "non_supervisor_in_last_generation", dict(slot=sname))
                return False
        # (3) required vertices / (4) order
        deps = rawgraphs.dependency_graph(raw, e, extra)
        targets = [(sup, p) for p in range(P)]
        anc = rawgraphs.ancestors(deps, targets) | set(targets)
        missing = [v for v in anc if v not in pos]
        if missing:
            res.fail(prefix + "ancestor_of_supervisor_step_not_scheduled", dict(eps=e, missing=[list(v) for v in sorted(missing)[:5]], prune=case["prune"], mode=case["mode"]))
            return False
        if not case["prune"]:
            K_sup = len(ep["verts"][sup]["start"])
            later = rawgraphs.ancestors(deps, [(sup, p) for p in range(P, K_sup)]) if K_sup > P else set()
            desc_cache = {}

            def depends_on(v, target):  # does v (transitively) depend on target?
                if v not in desc_cache:
                    desc_cache[v] = rawgraphs.ancestors(deps, [v])
                return target in desc_cache[v]

            for (nm, k) in deps:
                if nm == sup:
                    continue
                end = ep["verts"][nm]["end"][k]
                ok_p = [p for p in range(P) if end <= ep["verts"][sup]["start"][p] and not depends_on((nm, k), (sup, p))]
                if ok_p and (nm, k) not in pos:
                    if (nm, k) in later and (nm, k) not in anc:
                        res.label("strong_reading_fails_only_for_vertex_needed_beyond_horizon")
                        continue
                    res.fail(prefix + "vertex_finishing_before_supervisor_step_not_scheduled", dict(eps=e, kind=nm, seq=k, ts_end=end * rawgraphs.TICK, sup_step=ok_p[0], mode=case["mode"]))
                    return False
        for v, pv in pos.items():
            for u in deps[v]:
                if u not in pos:
                    res.fail(prefix + "dependency_of_scheduled_vertex_not_scheduled", dict(eps=e, vertex=list(v), dep=list(u)))
                    return False
                if not pos[u] < pv:
                    res.fail(prefix + "dependency_not_strictly_before", dict(eps=e, vertex=list(v), at=list(pv), dep=list(u), dep_at=list(pos[u]), mode=case["mode"], prune=case["prune"]))
                    return False
        extra_v = [v for v in pos if v not in anc]
        if extra_v and case["prune"]:
            res.label("executes_vertices_nothing_requires")
    if masked_any:
        res.label("masked_slots")
    return True


def check(case) -> CaseResult:
    res = CaseResult()
    raw = case["raw"]
    res.label("mode_" + case["mode"], "prune_" + str(case["prune"]))
    nodes = sysgen.build_nodes(rawgraphs.to_sys_spec(raw))
    graphs, cg = rawgraphs.to_rex_graph(raw)
    sup = raw["supervisor"]
    S_init = None
    try:
        if case["s_init"] and len(graphs) > 1:
            from rex import base

            sib = compiledrun.compile_graph(nodes, sup, base.Graph.stack(graphs[:1]), mode="MCS", prune=case["prune"])
            S_init = sib.S
            res.label("with_S_init")
        graph = compiledrun.compile_graph(nodes, sup, cg, mode=case["mode"], prune=case["prune"], S_init=S_init if case["mode"] == "MCS" else None)
    except ValueError as ex:
        if "There are no nodes in the partition" in str(ex):
            res.rejected = "empty partition (supervisor depends on nothing)"
            return res
        raise
    except AssertionError as ex:
        res.fail("C07.graph_construction_fails", dict(err=str(ex)[:200], mode=case["mode"], prune=case["prune"]))
        return res
    ext = rawgraphs.window_extensions(raw) if "rates" in raw else None
    if ext:
        res.label("trainable_window_extension")
    validate_schedule(case, graph, res, extra=ext)
    lens = {len(ep["verts"][sup]["start"]) for ep in raw["episodes"]}
    res.nontrivial = len(lens) > 1 or "masked_slots" in res.classes
    if any(any(s == r for s in ep["verts"][c["dst"]]["start"] for r in ep["edges"][ci]["recv"]) for ep in raw["episodes"] for ci, c in enumerate(raw["conns"])):
        res.label("has_arrival_start_tie")
    return res


def regressions():
    """fixed in 501fb6e: prune=False made the graph cyclic when a zero-delay vertex consumed, at the same time stamp, the
    output of the supervisor vertex it was attached to."""
    sup_t = list(range(0, 48, 6))  # supervisor n0 every 6 ticks, zero duration
    n1_t = list(range(0, 48, 12))
    ep = dict(
        verts=dict(n0=dict(start=sup_t, end=sup_t), n1=dict(start=n1_t, end=n1_t)),
        edges=[dict(recv=sup_t[:7]), dict(recv=n1_t[:3])],
    )
    raw = dict(names=["n0", "n1"], conns=[dict(src="n0", dst="n1", back=False, window=1), dict(src="n1", dst="n0", back=True, window=1)], supervisor="n0", episodes=[ep])
    return [dict(raw=raw, mode="MCS", prune=False, s_init=False)]
