#!/usr/bin/env python3
"""Regenerates MANIFEST.json from the table below (kept valid at all times; validated against the schema)."""
import json, os, sys

HERE = os.path.dirname(os.path.dirname(os.path.abspath(__file__)))
ALL = [f"C{i:02d}" for i in range(1, 21)]

# id -> (technique, level text, level note, design ref)
CLAIMED = {
    "C17": (
        "property-based testing (Hypothesis): round-trip / end-point / monotonicity / composition-order oracles vs a float64 reference",
        "Generated pytrees (nested, None leaves, mixed shapes), bounds and transform chains; every case checks inv(apply(x))=x, "
        "Denormalize end points and monotonicity, Chain order against a float64 reference composition, Shared and Extend.apply. "
        "Exploration is the right level: the property is a numeric identity over an unbounded input space.",
        "float32 tolerances derived per formula; Extend.inv excluded (raises under installed JAX, outside the property); trusts numpy float64 arithmetic",
        "DESIGN.md §4 C17",
    ),
}
NOT_YET = {}

def main():
    sys.path.insert(0, os.path.join(HERE, "tools"))
    try:
        from manifest_table import CLAIMED as C2, NOT_APPLICABLE as NA
        CLAIMED.update(C2); NOT_YET.update(NA)
    except ImportError:
        pass
    checks = []
    for pid in ALL:
        if pid not in CLAIMED:
            continue
        tech, text, note, ref = CLAIMED[pid]
        checks.append(dict(
            property_id=pid,
            quick_cmd=f"bin/check {pid} --tier quick",
            thorough_cmd=f"bin/check {pid} --tier thorough",
            evidence_file=f"evidence/{pid}.json",
            replay_cmd_template=f"bin/check {pid} --replay {{path}}",
            engine="rexverif",
            level_claimed=dict(category="exploration", text=text, design_ref=ref),
            level_note=note,
            technique=tech,
        ))
    na = [dict(property_id=p, reason=NOT_YET.get(p, "check not built yet in this session; planned in DESIGN.md, decided by the same technique family")) for p in ALL if p not in CLAIMED]
    m = dict(
        version=1,
        setup_cmd="bin/setup",
        hooks=dict(
            guard="REX_VERIF",
            enable="export REX_VERIF=1 (bin/check does this); rex is an editable install of /repo and /repo is first on PYTHONPATH, so checks always import the current working tree",
            baseline_off_cmd="cd /repo && env -u REX_VERIF JAX_PLATFORMS=cpu /venv/bin/python -m pytest -ra -q -p no:cacheprovider --timeout=900 --continue-on-collection-errors",
            source_commits=json.load(open(os.path.join(HERE, "tools", "hook_commits.json"))) if os.path.exists(os.path.join(HERE, "tools", "hook_commits.json")) else [],
            add_only=True,
        ),
        engines=[dict(name="rexverif", path="src/rexverif", serves_properties=sorted(CLAIMED), kind_free_text="Hypothesis-driven sharded property runner (bin/check -> rexverif.run -> rexverif.worker), collect-then-continue, per-bucket shrinking, JSON replay files")],
        checks=checks,
        notes="Every check: exit 0 held / 1 VIOLATION line / 2 harness error. Seeds: VERIF_SEED. Known findings: known_findings.json (never written at run time).",
        not_applicable=na,
    )
    with open(os.path.join(HERE, "MANIFEST.json"), "w") as f:
        json.dump(m, f, indent=1)
    try:
        import jsonschema
        jsonschema.validate(m, json.load(open("/root/.vp/MANIFEST.schema.json")))
        print("MANIFEST valid:", len(checks), "claimed,", len(na), "not_applicable")
    except ImportError:
        print("jsonschema unavailable; wrote MANIFEST.json unvalidated")

if __name__ == "__main__":
    main()
