#!/bin/bash
# usage: tools/with_patch.sh <patch.diff | revert:<commit>> <command...>
# Applies the change to /repo's working tree, runs the command, and always restores the tree.
set -u
P="$1"; shift
cd /repo || exit 2
if [ -n "$(git status --porcelain -- rex)" ]; then echo "repo dirty, refusing"; exit 2; fi
if [[ "$P" == revert:* ]]; then git show "${P#revert:}" -- rex | git apply -R || exit 2
else git apply "$P" || { echo "patch does not apply"; exit 2; }; fi
cd /verif
"$@"; rc=$?
git -C /repo checkout -- . 
exit $rc
