#!/usr/bin/env python3
"""tools/mkmut.py <PID> <name> <file-in-repo> <old> <new>  -> mutants/<PID>/<name>.diff (own sensitivity mutation)."""
import os, subprocess, sys
pid, name, path, old, new = sys.argv[1:6]
full = os.path.join("/repo", path)
s = open(full).read()
assert s.count(old) == 1, f"{s.count(old)} occurrences of old text"
assert not subprocess.check_output(["git", "-C", "/repo", "status", "--porcelain", "--", "rex"]).strip(), "repo dirty"
open(full, "w").write(s.replace(old, new))
try:
    diff = subprocess.check_output(["git", "-C", "/repo", "diff", "--", "rex"]).decode()
finally:
    subprocess.check_call(["git", "-C", "/repo", "checkout", "--", "."])
d = os.path.join("/verif/mutants", pid); os.makedirs(d, exist_ok=True)
open(os.path.join(d, name + ".diff"), "w").write(diff)
print("wrote", os.path.join(d, name + ".diff"))
