#!/bin/bash
# usage: tools/confirm_seed.sh <name e.g. C03-1> <worktree>   (confirms an agent-made change myself, then stores it under seeded/)
NAME="$1"; WT="$2"; OUT=/verif/seeded/$NAME
mkdir -p "$OUT"
cd "$WT" || exit 2
git diff -- rex > "$OUT/patch.diff"
cp demo.py "$OUT/demo.py"; cp meta.json "$OUT/agent_meta.json" 2>/dev/null
export PYTHONPATH="$WT" JAX_PLATFORMS=cpu
timeout 900 /venv/bin/python demo.py > "$OUT/demo_with_change.log" 2>&1; RC_WITH=$?
git stash -q
timeout 900 /venv/bin/python demo.py > "$OUT/demo_without_change.log" 2>&1; RC_WITHOUT=$?
git stash pop -q
timeout 2400 /venv/bin/python -m pytest -q -p no:cacheprovider tests/unit > "$OUT/unit_with_change.log" 2>&1
TESTS=$(tail -1 "$OUT/unit_with_change.log")
FAILED=$(grep '^FAILED' "$OUT/unit_with_change.log" | sed 's/ - .*//' | tr '\n' ';')
python3 - "$OUT" "$NAME" "$RC_WITH" "$RC_WITHOUT" "$TESTS" "$FAILED" <<'PY'
import json, sys, os
out, name, rcw, rcwo, tests, failed = sys.argv[1:7]
am = {}
try: am = json.load(open(os.path.join(out, "agent_meta.json")))
except Exception: pass
ok_tests = set(f for f in failed.split(";") if f) <= {"FAILED tests/unit/test_jax_utils.py::test_same_structure", "FAILED tests/unit/test_transforms.py::test_extend", "FAILED tests/unit/test_transforms.py::test_chain"}
meta = dict(name=name, property=am.get("property", name.split("-")[0]), summary=am.get("summary"), needs=am.get("needs"),
            confirmed_by_me=dict(demo_exit_with_change=int(rcw), demo_exit_without_change=int(rcwo), unit_suite_with_change=tests,
                                 unit_failures_with_change=failed, only_baseline_failures=ok_tests,
                                 commands=["PYTHONPATH=<wt> JAX_PLATFORMS=cpu python demo.py (with change / after git stash)", "PYTHONPATH=<wt> JAX_PLATFORMS=cpu python -m pytest -q tests/unit (with change)"]),
            kept=bool(int(rcw) != 0 and int(rcwo) == 0 and ok_tests), detected_by=None)
json.dump(meta, open(os.path.join(out, "meta.json"), "w"), indent=1)
print(name, "kept" if meta["kept"] else "REJECTED", "demo with/without:", rcw, rcwo, "|", tests)
PY
rm -f "$OUT/unit_with_change.log.tmp"
