"""Per-property manifest metadata (imported by gen_manifest.py)."""
PBT = "property-based testing (Hypothesis generated cases, sharded over 16 processes)"
CLAIMED = {
    "C11": (
        PBT + ": float64 reference model of the sender's piecewise-linear signal; bounds, zoh coincidence, continuity and grad-vs-finite-difference relations",
        "Generated InputState buffers (window+extension, default entries, periodic/jittered send times, multi-feature float/int payloads), delays in [min,max] and "
        "query positions placed by construction; TrainableDist.apply_delay is compared with an independent float64 reference of signal(ts_start - delay). "
        "Exploration fits: the property is a numeric identity over continuous parameters and buffer shapes.",
        "Function-level (apply_delay called directly on constructed buffers, in-contract positions only); float32 tolerance derived from ulp(ts)/segment length; near-ties skipped and counted",
        "DESIGN.md §4 C11",
    ),
}
NOT_APPLICABLE = {}
