"""Per-property manifest metadata (imported by gen_manifest.py)."""
PBT = "property-based testing (Hypothesis generated cases, sharded over 16 processes)"
CLAIMED = {
    "C11": (
        PBT + ": float64 reference model of the sender's piecewise-linear signal; bounds, zoh coincidence, continuity and grad-vs-finite-difference relations",
        "Generated InputState buffers (window+extension, default entries, periodic/jittered send times, multi-feature float/int payloads), delays in [min,max] and "
        "query positions placed by construction; TrainableDist.apply_delay is compared with an independent float64 reference of signal(ts_start - delay). "
        "Exploration fits: the property is a numeric identity over continuous parameters and buffer shapes.",
        "Function-level (apply_delay called directly on constructed buffers, in-contract positions only); float32 tolerance derived from ulp(ts)/segment length; near-ties skipped and counted",
        "DESIGN.md §4 C11",
    ),
}
CLAIMED["C15"] = (
    PBT + ": scipy normal CDF / own mixture CDF as reference, replay and purity relations, affine (units) metamorphic relation for the estimator",
    "Generated distributions (deterministic, normal, 2-4 component mixtures, trainable) x rng keys x sample shapes x quantile levels, plus generated delay "
    "data sets for GMMEstimator. Every case checks non-negativity, purity/replay of sampling, jit agreement, quantile monotonicity and CDF agreement, the "
    "default expected delay of nodes/connections, and estimator well-formedness incl. fit(a*x+b) = a*fit(x)+b. Exploration fits a universally quantified numeric API.",
    "scipy.stats.norm trusted as CDF reference; q in [0.01,0.995]; estimator relation asserted with loose tolerances (optimiser amplifies float32 rounding)",
    "DESIGN.md §4 C15",
)
NOT_APPLICABLE = {}
