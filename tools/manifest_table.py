"""Per-property manifest metadata (imported by gen_manifest.py)."""
PBT = "property-based testing (Hypothesis generated cases, sharded over 16 processes)"
CLAIMED = {
    "C11": (
        PBT + ": float64 reference model of the sender's piecewise-linear signal; bounds, zoh coincidence, continuity and grad-vs-finite-difference relations",
        "Generated InputState buffers (window+extension, default entries, periodic/jittered send times, multi-feature float/int payloads), delays in [min,max] and "
        "query positions placed by construction; TrainableDist.apply_delay is compared with an independent float64 reference of signal(ts_start - delay). "
        "Exploration fits: the property is a numeric identity over continuous parameters and buffer shapes.",
        "Function-level (apply_delay called directly on constructed buffers, in-contract positions only); float32 tolerance derived from ulp(ts)/segment length; near-ties skipped and counted",
        "DESIGN.md §4 C11",
    ),
}
CLAIMED["C15"] = (
    PBT + ": scipy normal CDF / own mixture CDF as reference, replay and purity relations, affine (units) metamorphic relation for the estimator",
    "Generated distributions (deterministic, normal, 2-4 component mixtures, trainable) x rng keys x sample shapes x quantile levels, plus generated delay "
    "data sets for GMMEstimator. Every case checks non-negativity, purity/replay of sampling, jit agreement, quantile monotonicity and CDF agreement, the "
    "default expected delay of nodes/connections, and estimator well-formedness incl. fit(a*x+b) = a*fit(x)+b. Exploration fits a universally quantified numeric API.",
    "scipy.stats.norm trusted as CDF reference; q in [0.01,0.995]; estimator relation asserted with loose tolerances (optimiser amplifies float32 rounding)",
    "DESIGN.md §4 C15",
)
ASYNC_NOTE = "threaded runtime observed through its public record; supported class of DESIGN §2.1; OS thread schedule is whatever occurred (plus C02's perturbations); <=5 nodes, <=12 supervisor steps"
CLAIMED["C03"] = (
    PBT + ": validity predicate over generated episode records (delivery, FIFO, causality, policy-prescribed consumer step, window contents) written from the documentation",
    "Generated node systems (topology, rates, blocking/skip/jitter/window, light/heavy/tie-pressure/zero delays, both clocks, three driving APIs) are run on the real "
    "threaded runtime; every episode record is judged by an independent reference of the connection policies. Exploration fits: the property is universal over graphs and seeds.",
    ASYNC_NOTE, "DESIGN.md §4 C03",
)
CLAIMED["C04"] = (
    PBT + ": reference evaluation of the start-time recurrence (rate, phase, drift, previous end, blocking arrivals) from configuration + recorded delays",
    "Same generated systems incl. overruns (heavy class), PHASE/FREQUENCY, advance; each recorded step start/end and each deterministic message arrival is recomputed "
    "by an independent reference of the documented law and compared within 2 us.",
    ASYNC_NOTE, "DESIGN.md §4 C04",
)
CLAIMED["C01"] = (
    PBT + ": differential oracle between the two runtimes on host-side probe traces (per node, episode, seq: time, rng, state, windows, payloads, output)",
    "Generated systems are run on the threaded runtime, the records converted and compiled (3 supergraph modes x prune), and replayed under jit from the same initial "
    "per-node rng/params/state; the probe nodes' own traces (independent of rex recording) must agree bit for bit on every step inside the compiled horizon.",
    ASYNC_NOTE + "; external supergraph library trusted only through rex", "DESIGN.md §4 C01",
)
CLAIMED["C06"] = (
    PBT + ": invariant over the execution history - host-side invocation counter per (node, episode, seq) compared with the record (threaded) and with Graph.timings (compiled)",
    "Generated systems x per-node jit x driving APIs (run / reset+step / overridden supervisor) on both runtimes and all supergraph modes; a side-effecting probe step "
    "counts its own executions: exactly 1 per recorded/scheduled tick, 0 for overridden, interrupted or masked ticks.",
    ASYNC_NOTE + "; trailing supervisor row after stop() read as not executed", "DESIGN.md §4 C06",
)
CLAIMED["C13"] = (
    PBT + ": record rows vs the probe nodes' own host-side trace (faithfulness) and metamorphic relation recording on/off/partial/truncated => identical trace and final state",
    "Generated systems x record-setting combinations x max_records on the threaded runtime, and init_record flags x supergraph mode x prune on the compiled runtime; "
    "each recorded row is compared field by field with what the step really saw; executions with and without recording must be bit-identical.",
    ASYNC_NOTE, "DESIGN.md §4 C13",
)
CLAIMED["C07"] = (
    PBT + ": validity predicate over Graph.timings (existence, uniqueness, completeness w.r.t. an own dependency/ancestor computation, (partition, generation) order, window model)",
    "Independently generated computation graphs (ties, ragged multi-episode stacks, unreceived messages, long vertices) x supergraph mode x prune x initial supergraph; "
    "the compiled schedule is validated against a reference windowing and ancestor computation that shares no code with rex.",
    "compiled schedule only (execution is C08/C09/C01); external supergraph library trusted only through rex; <=4 nodes, <=9 steps, <=3 episodes", "DESIGN.md §4 C07",
)
CLAIMED["C08"] = (
    PBT + ": payload-identity oracle (probe outputs carry producer id and seq) on jitted rollouts + static ring-buffer replay of Graph.timings against the allocated sizes",
    "Independently generated computation graphs x supergraph mode x prune x extra_padding x admissible/inadmissible user buffer_sizes x starting episode/step; "
    "dynamic: every window entry handed to a step must be the payload of the scheduled sequence number; static: replay of reads/writes in schedule order.",
    "compiled runtime inside the documented horizon; ring sizes read from Graph.init().buffer; <=4 nodes, <=9 steps, <=3 episodes", "DESIGN.md §4 C08",
)
CLAIMED["C09"] = (
    PBT + ": metamorphic relations between API compositions (run^n, rollout carry/full, reset+step, eager vs jit, vmap lanes, overridden supervisor step) compared bitwise",
    "Independently generated computation graphs x supergraph mode x prune x seeds x params overrides x starting episode/step (incl. out of range) x n; all driving "
    "APIs must return identical GraphState pytrees, params/eps/step given to init() must be what the steps see, out-of-range indices must clip.",
    "compiled runtime inside the documented horizon; integer-arithmetic probe nodes make bitwise comparison meaningful", "DESIGN.md §4 C09",
)
CLAIMED["C12"] = (
    PBT + ": validity predicate over the returned rex.base.Graph recomputed from its own float32 values; array equality on old parts for augmentation",
    "Generated node sets (static, mixture, trainable distributions; skip/window; tie-pressure and heavy-jitter classes) x horizons x episode counts x seeds, and "
    "sub-graphs augmented with the full node set; acyclicity, phase/period spacing, delays, horizon masking, FIFO arrival and first-step assignment are recomputed independently.",
    "only configurations generate_graphs documents as supported; networkx used for the cycle test; 2 ulp float32 tolerance where sums are recomputed", "DESIGN.md §4 C12",
)
CLAIMED["C10"] = (
    PBT + ": reference window model (arrival = sender end + d) and differential against the compiled static twin (same rng, Deterministic(clip(d)))",
    "Generated systems with a trainable zoh connection x [min,max] ranges x windows x d inside / at the bounds / outside x three ways of setting d x supergraph modes; "
    "windows must equal the model and all nodes' states/outputs must equal the static twin's.",
    "rex's window sizing assumption (violations counted, not asserted); exact ties not asserted; compiled runtime with generate_graphs graphs", "DESIGN.md §4 C10",
)
CLAIMED["C14"] = (
    PBT + ": round trips and set equalities between synthetic records/graphs (own construction) and rex's conversion, stacking, indexing, networkx and filter functions",
    "Generated ragged multi-episode data (incl. zero-length connections, unreceived and dropped messages, shadow input names), node subsets and both filter flags; "
    "every conversion must preserve exactly the executed vertices, their times and the message relations.",
    "synthetic records built with the public dataclasses; real records exercised by C01/C03/C13", "DESIGN.md §4 C14",
)
CLAIMED["C16"] = (
    PBT + ": model-based generation of operation histories (add node / connect / set_delay / close cycle) with a reference model (own longest-path DP) checked after every step; info round trip; simulated episode",
    "Generated histories over growing node sets incl. shadow input names, delays reset to 0.0 and un-skipped cycles; phases, infos, delay settings and "
    "from_info/connect_from_info round trips are compared with the model after every operation; a few histories end in a simulated episode whose recorded delays must be the configured ones.",
    "default expected delay (99th percentile) read back once at creation; phases to 1e-9", "DESIGN.md §4 C16",
)
CLAIMED["C18"] = (
    PBT + ": invariants over the optimisation history (bounds, monotone best-so-far == min finite loss seen, best candidate attained it, NaN handling) + reference model of the CEM mean update",
    "Generated losses (incl. NaN regions), bounds, CEM hyper-parameters / seven evosax strategies, seeds and iteration counts, stepwise and through the jitted scans; "
    "candidates are captured by a host callback inside the loss so the history is judged without reproducing rex's key splitting.",
    "evosax internals trusted; one known finding (OpenES + NaN loss => NaN candidates) is listed in known_findings.json and reported as KNOWN-FINDING", "DESIGN.md §4 C18",
)
CLAIMED["C19"] = (
    PBT + ": pure-Python reference models of every wrapper compared step by step over generated reward/termination/truncation scripts, actions and stackings; differential Environment.step vs graph.step",
    "Generated scripts, action values (incl. +-1e6), bounds, batch sizes and wrapper stackings (AutoReset fixed/fresh, Log, Squash/Clip, Vec, NormalizeObs, "
    "NormalizeReward) driven over multi-step histories on a scripted environment; plus Environment.step on a real compiled graph.",
    "wrappers are generic over the wrapped environment (duck-typed scripted env); only the stacking order used by rex.ppo is generated", "DESIGN.md §4 C19",
)
CLAIMED["C20"] = (
    PBT + ": differential oracle - exported Policy vs flax Actor.apply on the same parameters with independent numpy observation normalisation and action unsquash/clip",
    "Generated network depths/widths/activations, squash and normalisation settings with drawn running statistics, action bounds, NUM_ENVS, seeds, observations "
    "far outside the training range and sampling rngs; PPOResult assembled exactly as ppo.train leaves it (also with the leading axis of vmapped trainings), plus real tiny ppo.train runs.",
    "flax Dense/activations and distrax MultivariateNormalDiag trusted as the reference actor; state-dependent std not generated", "DESIGN.md §4 C20",
)
CLAIMED["C02"] = (
    PBT + ": metamorphic relation - records and observed StepStates of perturbed variants (reset/step, throttled real-time factors, generated pause plans at the REX_VERIF yield points) must equal the baseline bitwise",
    "Generated systems x variants of one episode from the same initial state; the harness owns the schedule at task boundaries through the guarded hooks "
    "(sleep at the n-th / every k-th submission or task start of a chosen node or connection thread, biased to starve senders of non-blocking connections).",
    ASYNC_NOTE + "; perturbation only at task boundaries; zero hook hits is a harness error", "DESIGN.md §4 C02",
)
CLAIMED["C05"] = (
    PBT + ": generated lifecycle call histories with user-thread timing + enumerated gate scenarios through the REX_VERIF gate points; oracle = every call returns (quiescence-based deadlock detector) and history invariants on consecutive episode records",
    "Generated supported systems x both clocks x histories (reset step* stop / run+ stop / restart without stop / stop twice) x gate scenarios that park the supervisor, a node "
    "thread or a connection thread while stop / reset / stop-then-run is issued; each later episode must start at seq 0 / time 0 with zero drift (start-time law re-evaluated), the "
    "episode counter advances by one and no window carries a payload of another episode.",
    "liveness observed up to a watchdog; supported class of DESIGN §2.1 (calibrated on 480 systems); interleavings only at the gate points and through user-thread timing; single user thread",
    "DESIGN.md §4 C05",
)
NOT_APPLICABLE = {}
