#!/bin/bash
# usage: tools/run_mutants.sh <PID> [extra bin/check args]   -> one line per own sensitivity mutation: name + exit code
PID="$1"; shift
for f in /verif/mutants/$PID/*.diff; do
  out=$(/verif/tools/with_patch.sh "$f" timeout 1200 bin/check "$PID" "$@" 2>&1); rc=$?
  echo "$(basename "$f" .diff): exit=$rc $(echo "$out" | grep -c '^VIOLATION') violation line(s): $(echo "$out" | grep '^VIOLATION' | head -1 | cut -c1-160)"
done
