#!/usr/bin/env python3
"""Print the prompt given to a fresh sub-agent that seeds a property-breaking change (nothing from /verif leaks)."""
import json, sys
pid = sys.argv[1]; wt = sys.argv[2]; hint = sys.argv[3] if len(sys.argv) > 3 else ""
props = {json.loads(l)["id"]: json.loads(l) for l in open("/verif/properties.jsonl")}
p = props[pid]
print(f"""You are helping to evaluate a test suite for the Python project `rex` (bheijden/rex: a JAX framework for sim-to-real robotics; graphs of rate-driven nodes with modeled delays, run by a threaded async runtime `rex/asynchronous.py` or a compiled supergraph runtime `rex/graph.py`).

You have your own scratch git worktree of the repository at {wt} (work ONLY there; never touch /repo or /verif, and do not read /verif). Python is /venv/bin/python. IMPORTANT: the package is installed in editable mode pointing somewhere else, so ALWAYS run with `cd {wt} && PYTHONPATH={wt} JAX_PLATFORMS=cpu /venv/bin/python ...` so that your modified copy is imported (check `rex.__file__`). There is no network. Always prefix long commands with `timeout 600`.

Here is a semantic property the library is supposed to satisfy:

TITLE: {p['title']}
STATEMENT: {p['statement']}
QUANTIFIED OVER: {p['quantifier']['text']}
RELEVANT CODE: {', '.join(p['anchors']['files'])}; mechanisms: {'; '.join(m['name'] + ' (' + m['where'] + ')' for m in p['anchors']['mechanism'])}

YOUR TASK: make ONE small, realistic source change (a plausible bug a maintainer could introduce in a refactor: an off-by-one, a wrong comparison, a dropped update, a swapped argument, a missing lock/ordering, two cooperating sites that each look fine alone...) in the `rex/` package that BREAKS this property, while
 (a) the package still imports, and
 (b) the relevant existing unit tests still pass. Run at least the directly relevant test files, e.g. `cd {wt} && PYTHONPATH={wt} JAX_PLATFORMS=cpu timeout 900 /venv/bin/python -m pytest -q -p no:cacheprovider -x tests/unit/<relevant files>` (the tests in tests/unit; note `tests/unit/test_jax_utils.py::test_same_structure`, `tests/unit/test_transforms.py::test_chain`, `test_extend` and `tests/integration` already fail before any change; ignore those). The complete unit suite takes ~4 minutes; run it once at the end if you can: `PYTHONPATH={wt} JAX_PLATFORMS=cpu timeout 1500 /venv/bin/python -m pytest -q -p no:cacheprovider tests/unit`.
 (c) The breakage must need something SPECIFIC to manifest — a particular input shape/value, an unusual configuration, a multi-step sequence of calls, a particular interleaving, a boundary tie — rather than failing on the most ordinary use at once. {hint}

Also write a DEMONSTRATION: a small standalone Python program `{wt}/demo.py` that exits 0 when the property holds and exits non-zero (printing what went wrong) when it is violated. It must FAIL with your change and PASS on the unmodified code (verify both: use `git stash` / `git stash pop`, or `git diff > /tmp/x.diff; git checkout -- rex; ...; git apply /tmp/x.diff`). Keep its runtime under ~2 minutes. Use only public API of rex plus numpy/jax.

When done, leave the worktree with your change applied (uncommitted) and write:
 - {wt}/patch.diff  (output of `git diff -- rex`)
 - {wt}/demo.py
 - {wt}/meta.json  with keys: property (= "{pid}"), summary (what you changed), needs (what is needed for the breakage to manifest), tests_run (the commands you ran and their outcome), demo_fails_with_change (true/false), demo_passes_without_change (true/false).
Reply with a short summary of the change, what it needs to manifest, and the test results. Do not try more than ~3 different ideas; if an idea is caught by existing tests, pick another one.""")
