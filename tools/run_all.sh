#!/bin/bash
# usage: tools/run_all.sh <tier> <seed...>   runs every claimed check; prints one line per (check, seed)
TIER="$1"; shift
for s in "$@"; do
  for id in $(python3 -c "import json; print(' '.join(c['property_id'] for c in json.load(open('/verif/MANIFEST.json'))['checks']))"); do
    out=$(VERIF_SEED=$s /verif/bin/check $id --tier $TIER 2>&1); rc=$?
    echo "seed=$s $id exit=$rc $(echo "$out" | grep '^\[C' | tail -1) $(echo "$out" | grep -c '^VIOLATION') viol"
    if [ $rc -ne 0 ]; then echo "$out" | grep -v "^    \|^     \|^)" | tail -15 | cut -c1-300; fi
  done
done
